// C11 (batching) and C12 (quorum of acknowledgements) on the real mempool stack in virtual time,
// peers played by the harness.
use crate::driver::{MempoolNode, Rt};
use crate::util::{hex, ncpu, par_map, Report, Tier};
use crate::world::{World, MEMPOOL_PORT0, TX_PORT0};
use bytes::Bytes;
use crypto::{Digest, PublicKey};
use ed25519_dalek::{Digest as _, Sha512};
use mempool::verif::{MempoolMessage, QuorumWaiter, QuorumWaiterMessage};
use network::simnet;
use serde_json::{json, Value};
use std::collections::{BTreeMap, BTreeSet, HashMap};
use std::convert::TryInto;
use tokio::sync::mpsc::channel;
use tokio::sync::oneshot;

fn sha(bytes: &[u8]) -> Digest {
    Digest(Sha512::digest(bytes).as_slice()[..32].try_into().unwrap())
}

fn params(b: usize, d: u64) -> mempool::Parameters {
    mempool::Parameters {
        gc_depth: 50,
        sync_retry_delay: 1_000_000_000,
        sync_retry_nodes: 3,
        batch_size: b,
        max_batch_delay: d,
    }
}

// ---------------------------------------------------------------------------------------------
// C11
// ---------------------------------------------------------------------------------------------

#[derive(Clone, Debug)]
struct Finding {
    sig: String,
    what: String,
    replay: Value,
}

struct C11Exec {
    node: MempoolNode,
    now: u64,
    /// batch frames in emission order (from the connection to peer 1), with emission time
    batches: Vec<(Vec<u8>, u64)>,
    per_peer: BTreeMap<u16, Vec<Vec<u8>>>,
    digests: Vec<Digest>,
}

impl C11Exec {
    fn observe(&mut self) {
        loop {
            self.node.poll_conns();
            let mut any = false;
            for ep in &self.node.outs {
                for f in ep.read_frames() {
                    any = true;
                    let port = ep.addr.port();
                    self.per_peer.entry(port).or_default().push(f.clone());
                    if port == MEMPOOL_PORT0 + 1 {
                        self.batches.push((f, self.now));
                    }
                    ep.write_frame(b"Ack");
                }
            }
            self.digests.extend(self.node.digests());
            if !any {
                break;
            }
            self.node.rt.quiesce();
            self.now += 1;
        }
    }
    fn pass(&mut self, ms: u64) {
        for _ in 0..ms {
            self.node.rt.run_for(1);
            self.now += 1;
            self.observe();
        }
    }
}

fn tx_bytes(idx: usize, size: usize) -> Vec<u8> {
    let mut v = vec![0u8; size];
    for (j, b) in v.iter_mut().enumerate() {
        *b = (idx as u8 + 1).wrapping_mul(17).wrapping_add(j as u8);
    }
    if size > 0 {
        // odd positions in the sequence look like benchmark "sample" transactions (leading zero)
        v[0] = if idx % 2 == 1 { 0 } else { idx as u8 + 1 };
    }
    v
}

fn run_c11(w: &World, b: usize, d: u64, seq: &[(usize, u64)]) -> (Vec<Finding>, u64, String) {
    let node = MempoolNode::boot(w, 0, params(b, d));
    let mut e = C11Exec { node, now: 1, batches: Vec::new(), per_peer: BTreeMap::new(), digests: Vec::new() };
    let mut findings = Vec::new();
    let desc: Vec<String> = seq.iter().map(|(s, g)| format!("wait {}ms, tx of {} bytes", g, s)).collect();
    let replay = json!({"engine":"seq-mempool","check":"c11","batch_size":b,"max_batch_delay":d,"benchmark_feature":cfg!(feature = "benchmark"),"sequence":desc});
    let mut find = |sig: &str, what: String, findings: &mut Vec<Finding>| {
        if !findings.iter().any(|f: &Finding| f.sig == sig) {
            findings.push(Finding { sig: sig.to_string(), what, replay: replay.clone() });
        }
    };
    let mut accepted: Vec<(Vec<u8>, u64)> = Vec::new();
    let mut open_size = 0usize;
    let mut sealed_count_expected_now;
    let mut steps = 0u64;
    let mut last_delivery = e.now;
    for (i, (size, gap)) in seq.iter().enumerate() {
        // `gap` = virtual ms between consecutive deliveries (harness probes included)
        let target = last_delivery + *gap;
        if target > e.now {
            let wait = target - e.now;
            e.pass(wait);
        }
        last_delivery = e.now;
        // a timer-triggered seal may have emptied the open batch: recompute from what was emitted
        let emitted: usize = e.batches.iter().map(|(f, _)| decode_batch(f).map(|b| b.len()).unwrap_or(0)).sum();
        open_size = accepted[emitted.min(accepted.len())..].iter().map(|(t, _)| t.len()).sum();
        let tx = tx_bytes(i, *size);
        e.node.deliver(TX_PORT0, &tx);
        e.node.rt.quiesce();
        e.now += 1;
        let before = e.batches.len();
        e.observe();
        steps += 1;
        accepted.push((tx.clone(), e.now));
        open_size += tx.len();
        sealed_count_expected_now = open_size >= b;
        if sealed_count_expected_now && e.batches.len() == before {
            find("no-seal-at-size", format!("the open batch reached {} >= batch_size {} bytes with transaction #{} but no batch was sealed in that step", open_size, b, i), &mut findings);
        }
    }
    e.pass(d + 4);
    // panics anywhere in the node
    for p in e.node.rt.panics() {
        let site = p.rsplit(" @ ").next().unwrap_or("").to_string();
        find(&format!("panic:{}", site), format!("a mempool task panicked: {}", p), &mut findings);
    }
    // (1) exactly once, in order, byte-identical
    let mut flat: Vec<(Vec<u8>, u64)> = Vec::new();
    for (f, t) in &e.batches {
        match decode_batch(f) {
            Some(txs) => {
                if txs.is_empty() {
                    find("empty-batch", "an empty batch was sealed".into(), &mut findings);
                }
                for t2 in txs {
                    flat.push((t2, *t));
                }
            }
            None => find("undecodable-batch", "a frame sent to the peers does not decode as a batch".into(), &mut findings),
        }
    }
    let got: Vec<&Vec<u8>> = flat.iter().map(|x| &x.0).collect();
    let want: Vec<&Vec<u8>> = accepted.iter().map(|x| &x.0).collect();
    if got != want {
        let kind = if got.len() < want.len() { "transaction-lost" } else if got.len() > want.len() { "transaction-duplicated" } else { "transaction-reordered-or-altered" };
        find(kind, format!("batches contain {} transactions {:?}, accepted {} transactions {:?}", got.len(), got.iter().map(|t| hex(&t[..t.len().min(4)])).collect::<Vec<_>>(), want.len(), want.iter().map(|t| hex(&t[..t.len().min(4)])).collect::<Vec<_>>()), &mut findings);
    } else {
        // (3) sealed within the maximum delay
        for (k, ((_, sealed), (_, acc))) in flat.iter().zip(accepted.iter()).enumerate() {
            if *sealed > *acc + d + 3 {
                find("sealed-late", format!("transaction #{} accepted at {} ms was sealed at {} ms: later than max_batch_delay {} ms", k, acc, sealed, d), &mut findings);
            }
        }
    }
    // all peers got the same frames in the same order
    let reference: Vec<Vec<u8>> = e.batches.iter().map(|x| x.0.clone()).collect();
    for (port, frames) in &e.per_peer {
        if *frames != reference {
            find("peers-differ", format!("peer on port {} received a different batch sequence", port), &mut findings);
        }
    }
    // (4) content addressing of own batches
    let want_digests: Vec<Digest> = reference.iter().map(|f| sha(f)).collect();
    if e.digests != want_digests {
        find("digest-mismatch", format!("digests handed to consensus {:?} differ from the hashes of the sealed batch frames {:?}", e.digests, want_digests), &mut findings);
    }
    for (f, dg) in reference.iter().zip(want_digests.iter()) {
        let stored = e.node.mem.lock().unwrap().get(&dg.to_vec()).cloned();
        if stored.as_ref() != Some(f) {
            find("store-mismatch", format!("the store does not hold the exact batch bytes under {:?}", dg), &mut findings);
        }
    }
    // (5) received batches: exact bytes, with and without trailing garbage
    let base = bincode::serialize(&MempoolMessage::Batch(vec![vec![9u8, 9, 9], vec![]])).unwrap();
    let mut garbage = base.clone();
    garbage.extend_from_slice(b"trailing");
    for (k, frame) in [base, garbage].iter().enumerate() {
        let before = e.digests.len();
        e.node.deliver(MEMPOOL_PORT0, frame);
        e.node.rt.quiesce();
        e.observe();
        let dg = sha(frame);
        let stored = e.node.mem.lock().unwrap().get(&dg.to_vec()).cloned();
        let announced = e.digests[before..].contains(&dg);
        let decodes = bincode::deserialize::<MempoolMessage>(frame).is_ok();
        if decodes && (stored.as_ref() != Some(frame) || !announced) {
            find("received-batch-not-content-addressed", format!("received batch (variant {}) is not stored/announced under the hash of its exact bytes (stored {}, announced {})", k, stored.is_some(), announced), &mut findings);
        }
    }
    for p in e.node.rt.panics() {
        let site = p.rsplit(" @ ").next().unwrap_or("").to_string();
        find(&format!("panic:{}", site), format!("a mempool task panicked: {}", p), &mut findings);
    }
    let obs = format!("{:?}", e.batches.iter().map(|(f, _)| decode_batch(f).map(|b| b.len())).collect::<Vec<_>>());
    (findings, steps, obs)
}

fn decode_batch(f: &[u8]) -> Option<Vec<Vec<u8>>> {
    match bincode::deserialize::<MempoolMessage>(f) {
        Ok(MempoolMessage::Batch(b)) => Some(b),
        _ => None,
    }
}

/// One build's share of C11; printed as JSON by the benchmark-feature binary.
pub fn c11_part(tier: Tier) -> Value {
    let w = World::new(&[1, 1, 1, 1]);
    let configs: Vec<(usize, u64)> = tier.pick(vec![(10, 20)], vec![(1, 10), (10, 20), (100, 50)]);
    let maxlen = tier.pick(3usize, 4usize);
    let mut jobs: Vec<(usize, u64, Vec<(usize, u64)>)> = Vec::new();
    for (b, d) in &configs {
        let sizes = [0usize, 1, b.saturating_sub(1), *b, b + 1, 2 * b];
        let mut sizes: Vec<usize> = sizes.to_vec();
        sizes.sort();
        sizes.dedup();
        let gaps = [0u64, d - 1, *d, d + 1];
        fn rec(len: usize, sizes: &[usize], gaps: &[u64], cur: &mut Vec<(usize, u64)>, out: &mut Vec<Vec<(usize, u64)>>) {
            if !cur.is_empty() {
                out.push(cur.clone());
            }
            if cur.len() == len {
                return;
            }
            for s in sizes {
                for g in gaps {
                    if cur.is_empty() && *g != 0 && *g != gaps[1] {
                        continue; // the wait before the first transaction only shifts the timer phase: two phases
                    }
                    cur.push((*s, *g));
                    rec(len, sizes, gaps, cur, out);
                    cur.pop();
                }
            }
        }
        let mut out = Vec::new();
        rec(maxlen, &sizes, &gaps, &mut Vec::new(), &mut out);
        for s in out {
            jobs.push((*b, *d, s));
        }
    }
    let results = par_map(jobs.len(), ncpu(), |i| {
        let (b, d, s) = &jobs[i];
        run_c11(&w, *b, *d, s)
    });
    let mut findings: BTreeMap<String, (usize, Finding)> = BTreeMap::new();
    let mut steps = 0u64;
    let mut obs = BTreeSet::new();
    for (i, (fs, st, o)) in results.into_iter().enumerate() {
        steps += st;
        obs.insert(o);
        for f in fs {
            let len = jobs[i].2.len();
            let better = findings.get(&f.sig).map_or(true, |(l, _)| len < *l);
            if better {
                findings.insert(f.sig.clone(), (len, f));
            }
        }
    }
    json!({
        "build": if cfg!(feature = "benchmark") { "benchmark" } else { "default" },
        "executions": jobs.len(), "transactions": steps, "distinct_batchings": obs.len(),
        "configs": configs.iter().map(|(b, d)| format!("batch_size={} max_batch_delay={}ms", b, d)).collect::<Vec<_>>(),
        "max_sequence_length": maxlen,
        "findings": findings.values().map(|(_, f)| json!({"sig": f.sig, "what": f.what, "replay": f.replay})).collect::<Vec<_>>(),
        "sample": jobs.get(jobs.len() / 2).map(|j| format!("{:?}", j)),
    })
}

pub fn run_bench_part(prop: &str, tier: Tier) -> Option<Value> {
    let out = std::process::Command::new("/verif/harness/target/release/hsv-bench")
        .arg(prop)
        .arg(tier.name())
        .arg("--part")
        .output()
        .ok()?;
    let text = String::from_utf8_lossy(&out.stdout);
    let line = text.lines().rev().find(|l| l.starts_with("PART-JSON "))?;
    serde_json::from_str(&line["PART-JSON ".len()..]).ok()
}

pub fn fold_part(rep: &mut Report, part: &Value) {
    let build = part["build"].as_str().unwrap_or("?").to_string();
    for f in part["findings"].as_array().cloned().unwrap_or_default() {
        let sig = format!("{}{}", f["sig"].as_str().unwrap_or(""), if build == "benchmark" { "@benchmark-build" } else { "" });
        rep.violation(sig, format!("[{} build] {}", build, f["what"].as_str().unwrap_or("")), f["replay"].clone());
    }
    rep.add("states", part["executions"].as_u64().unwrap_or(0));
    rep.add("transitions", part["transactions"].as_u64().unwrap_or(0));
    rep.add("traces_validated_against_impl", part["executions"].as_u64().unwrap_or(0));
    let mut prev: Vec<Value> = rep.coverage.get("parts").and_then(|v| v.as_array().cloned()).unwrap_or_default();
    let mut p = part.clone();
    p.as_object_mut().unwrap().remove("findings");
    prev.push(p.clone());
    rep.set("parts", Value::Array(prev));
    rep.sample(json!({"build": build, "sample": p["sample"]}));
}

pub fn c11(tier: Tier) -> i32 {
    let mut rep = Report::new("C11", tier, "model_checking");
    let own = c11_part(tier);
    println!("  mempool/batching [{}]: executions={} transactions={} distinct batchings={}", own["build"], own["executions"], own["transactions"], own["distinct_batchings"]);
    fold_part(&mut rep, &own);
    match run_bench_part("C11", tier) {
        Some(p) => {
            println!("  mempool/batching [{}]: executions={} transactions={} distinct batchings={}", p["build"], p["executions"], p["transactions"], p["distinct_batchings"]);
            fold_part(&mut rep, &p);
        }
        None => crate::util::machinery_error("C11: the benchmark-feature binary (hsv-bench) did not produce a result; run ./check C11 so that it is built"),
    }
    rep.set("exhaustive", json!(true));
    rep.set("explanation", json!("states = transaction sequences executed on a freshly booted real mempool stack (Mempool::spawn: tx receiver, BatchMaker, ReliableSender, QuorumWaiter, Processor, in-memory store actor) on a paused clock advanced 1 ms at a time; transitions = transactions delivered. Alphabet: sizes {0,1,b-1,b,b+1,2b} x waits {0,d-1,d,d+1} ms. Oracle: reference batcher (exactly once / in order / byte-identical, seal in the step the size threshold is reached, every transaction sealed within max_batch_delay of acceptance, content addressing of own and received batches incl. trailing bytes, no panic). Both builds: default and --features benchmark."));
    rep.assume("peers acknowledge every batch frame at once (C12 explores the acknowledgement orders); virtual time with 1 ms resolution and a 3 ms slack on the delay bound");
    rep.finish()
}

// ---------------------------------------------------------------------------------------------
// C12
// ---------------------------------------------------------------------------------------------

fn perms(n: usize) -> Vec<Vec<usize>> {
    fn rec(cur: &mut Vec<usize>, used: &mut Vec<bool>, n: usize, out: &mut Vec<Vec<usize>>) {
        if cur.len() == n {
            out.push(cur.clone());
            return;
        }
        for i in 0..n {
            if !used[i] {
                used[i] = true;
                cur.push(i);
                rec(cur, used, n, out);
                cur.pop();
                used[i] = false;
            }
        }
    }
    let mut out = Vec::new();
    rec(&mut Vec::new(), &mut vec![false; n], n, &mut out);
    out
}

/// (a) the real QuorumWaiter with harness-owned acknowledgement handles.
fn c12_waiter(rep: &mut Report, tier: Tier) {
    let committees: Vec<Vec<u32>> = match tier {
        Tier::Quick => vec![vec![1, 1, 1, 1], vec![1, 1, 1, 2], vec![3, 1, 1, 1], vec![5, 1, 1, 1, 1]],
        Tier::Thorough => vec![vec![1, 1, 1, 1], vec![1, 1, 1, 2], vec![3, 1, 1, 1], vec![5, 1, 1, 1, 1], vec![2, 2, 1, 1], vec![1; 7]],
    };
    let mut execs = 0u64;
    let mut steps = 0u64;
    for stakes in &committees {
        let w = World::new(stakes);
        let q = w.ref_quorum();
        let n = stakes.len();
        for own in 0..n {
            let peers: Vec<usize> = (0..n).filter(|i| *i != own).collect();
            let orders = if peers.len() <= 4 { perms(peers.len()) } else { perms(peers.len()).into_iter().step_by(7).collect() };
            for order in orders {
                // every prefix length = the peers after the prefix never answer
                for answered in 0..=peers.len() {
                    for nbatches in 1..=2usize {
                        execs += 1;
                        let rt = Rt::new();
                        let (tx_msg, mut rx_out) = rt.block_on(async {
                            let (tx_msg, rx_msg) = channel::<QuorumWaiterMessage>(10);
                            let (tx_out, rx_out) = channel::<Vec<u8>>(10);
                            QuorumWaiter::spawn(w.mempool_committee(), stakes[own], rx_msg, tx_out);
                            (tx_msg, rx_out)
                        });
                        let mut senders: Vec<HashMap<usize, oneshot::Sender<Bytes>>> = Vec::new();
                        for bi in 0..nbatches {
                            let mut hs = Vec::new();
                            let mut ss = HashMap::new();
                            for p in &peers {
                                let (s, r) = oneshot::channel::<Bytes>();
                                hs.push((w.name(*p), r));
                                ss.insert(*p, s);
                            }
                            senders.push(ss);
                            let msg = QuorumWaiterMessage { batch: vec![bi as u8; 3], handlers: hs };
                            rt.block_on(async { tx_msg.send(msg).await.unwrap() });
                        }
                        rt.quiesce();
                        let mut delivered: Vec<Vec<u8>> = Vec::new();
                        let mut drain = |delivered: &mut Vec<Vec<u8>>| {
                            while let Ok(b) = rx_out.try_recv() {
                                delivered.push(b);
                            }
                        };
                        drain(&mut delivered);
                        let mut acked: Vec<u64> = vec![stakes[own] as u64; nbatches];
                        let check = |delivered: &Vec<Vec<u8>>, acked: &Vec<u64>, when: String, rep: &mut Report| {
                            // batches are handled one after the other
                            let mut expect = 0;
                            for a in acked {
                                if *a >= q {
                                    expect += 1;
                                } else {
                                    break;
                                }
                            }
                            if delivered.len() != expect {
                                let sig = if delivered.len() > expect { "waiter:delivered-before-quorum" } else { "waiter:not-delivered-at-quorum" };
                                rep.violation(sig.into(), format!("[QuorumWaiter stakes {:?} own n{} order {:?}] {}: {} batches delivered, reference {} (acknowledged stake per batch {:?}, quorum {})", stakes, own, order, when, delivered.len(), expect, acked, q),
                                    json!({"engine":"seq-mempool","check":"c12a","stakes":stakes,"own":own,"order":order,"answered":answered,"batches":nbatches}));
                            }
                        };
                        check(&delivered, &acked, "before any acknowledgement".into(), rep);
                        for bi in 0..nbatches {
                            for k in 0..answered {
                                let p = peers[order[k]];
                                if let Some(s) = senders[bi].remove(&p) {
                                    let _ = s.send(Bytes::from("Ack"));
                                }
                                rt.quiesce();
                                steps += 1;
                                drain(&mut delivered);
                                acked[bi] += stakes[p] as u64;
                                check(&delivered, &acked, format!("after n{} acknowledged batch {}", p, bi), rep);
                            }
                        }
                        for (bi, d) in delivered.iter().enumerate() {
                            if *d != vec![bi as u8; 3] {
                                rep.violation("waiter:wrong-batch".into(), format!("[QuorumWaiter stakes {:?}] delivered batch {} has the wrong bytes", stakes, bi), json!({"engine":"seq-mempool","check":"c12a"}));
                            }
                        }
                        // keep the remaining senders alive until here (a real ReliableSender never drops them)
                        drop(senders);
                    }
                }
            }
        }
    }
    println!("  quorum waiter: executions={} acknowledgements={}", execs, steps);
    rep.add("states", execs);
    rep.add("transitions", steps);
    rep.add("traces_validated_against_impl", execs);
    rep.set("waiter_committees", json!(committees));
}

#[derive(Clone, Copy, Debug, PartialEq, Eq, PartialOrd, Ord)]
enum PeerEv {
    Ack(usize),
    Cut(usize),
    /// a client transaction arrives: the next batch is sealed and broadcast
    Tx,
}

/// (b) the whole mempool stack: acknowledgements released in every order, connections cut
/// before the acknowledgement, mute peers.
fn run_c12_stack(stakes: &[u32], own: usize, nbatches: usize, evs: &[PeerEv]) -> (Vec<(String, String)>, u64) {
    let w = World::new(stakes);
    let q = w.ref_quorum();
    let mut node = MempoolNode::boot(&w, own, params(4, 1_000_000));
    let mut bad = Vec::new();
    // per peer: live connection index, frames read and not answered, acknowledged batches
    let mut unanswered: BTreeMap<usize, Vec<(usize, Vec<u8>)>> = BTreeMap::new(); // peer -> (conn idx, frame)
    let mut acked: Vec<BTreeSet<usize>> = vec![BTreeSet::new(); nbatches];
    let mut sealed = nbatches;
    let mut frames_sent: Vec<Vec<u8>> = Vec::new();
    let mut delivered: Vec<Digest> = Vec::new();
    let mut steps = 0u64;
    let collect = |node: &mut MempoolNode, unanswered: &mut BTreeMap<usize, Vec<(usize, Vec<u8>)>>, frames_sent: &mut Vec<Vec<u8>>| {
        node.rt.quiesce();
        node.poll_conns();
        for (ci, ep) in node.outs.iter().enumerate() {
            let peer = (ep.addr.port() - MEMPOOL_PORT0) as usize;
            for f in ep.read_frames() {
                if !frames_sent.contains(&f) {
                    frames_sent.push(f.clone());
                }
                // a retransmission on a new connection replaces what was pending on the old one
                let list = unanswered.entry(peer).or_default();
                list.retain(|(c, _)| *c == ci);
                list.push((ci, f));
            }
        }
    };
    for bi in 0..nbatches {
        node.deliver(TX_PORT0 + own as u16, &[bi as u8 + 1, 2, 3, 4, 5]);
        collect(&mut node, &mut unanswered, &mut frames_sent);
    }
    let check = |node: &mut MempoolNode, delivered: &mut Vec<Digest>, acked: &Vec<BTreeSet<usize>>, frames_sent: &Vec<Vec<u8>>, when: String, bad: &mut Vec<(String, String)>| {
        delivered.extend(node.digests());
        let mut expect = 0;
        for a in acked {
            let s: u64 = stakes[own] as u64 + a.iter().map(|p| stakes[*p] as u64).sum::<u64>();
            if s >= q {
                expect += 1;
            } else {
                break;
            }
        }
        if delivered.len() > expect {
            bad.push(("stack:proposed-before-quorum".to_string(), format!("{}: {} own batch digests were handed to consensus although only {} batches are acknowledged by a quorum (acknowledging peers per batch {:?}, stakes {:?}, own n{}, quorum {})", when, delivered.len(), expect, acked, stakes, own, q)));
        } else if delivered.len() < expect {
            bad.push(("stack:not-proposed-at-quorum".to_string(), format!("{}: {} digests handed to consensus, {} batches are acknowledged by a quorum", when, delivered.len(), expect)));
        }
        for (i, d) in delivered.iter().enumerate() {
            if frames_sent.get(i).map(|f| sha(f)) != Some(d.clone()) {
                bad.push(("stack:wrong-digest".to_string(), format!("{}: digest #{} is not the hash of batch #{}", when, i, i)));
            }
            if node.mem.lock().unwrap().get(&d.to_vec()).is_none() {
                bad.push(("stack:not-stored".to_string(), format!("{}: digest #{} announced but the batch is not in the store", when, i)));
            }
        }
        // nothing stored as deliverable before quorum
        for (i, f) in frames_sent.iter().enumerate() {
            if i >= expect && node.mem.lock().unwrap().get(&sha(f).to_vec()).is_some() {
                bad.push(("stack:stored-before-quorum".to_string(), format!("{}: batch #{} is in the store before a quorum acknowledged it", when, i)));
            }
        }
    };
    check(&mut node, &mut delivered, &acked, &frames_sent, "before any acknowledgement".into(), &mut bad);
    for ev in evs {
        steps += 1;
        match ev {
            PeerEv::Ack(p) => {
                if let Some(list) = unanswered.get_mut(p) {
                    if !list.is_empty() {
                        let (ci, f) = list.remove(0);
                        node.outs[ci].write_frame(b"Ack");
                        if let Some(bi) = frames_sent.iter().position(|x| *x == f) {
                            if bi < acked.len() {
                                acked[bi].insert(*p);
                            }
                        }
                    }
                }
            }
            PeerEv::Tx => {
                node.deliver(TX_PORT0 + own as u16, &[sealed as u8 + 1, 2, 3, 4, 5]);
                sealed += 1;
                acked.push(BTreeSet::new());
            }
            PeerEv::Cut(p) => {
                // close the peer's live connection: what it had read and not answered is lost
                if let Some(list) = unanswered.get_mut(p) {
                    if let Some((ci, _)) = list.first().cloned() {
                        node.outs[ci].close();
                    } else if let Some((ci, _)) = node.outs.iter().enumerate().filter(|(_, e)| (e.addr.port() - MEMPOOL_PORT0) as usize == *p && !e.closed_by_node()).last() {
                        node.outs[ci].close();
                    }
                    list.clear();
                }
            }
        }
        collect(&mut node, &mut unanswered, &mut frames_sent);
        check(&mut node, &mut delivered, &acked, &frames_sent, format!("after {:?}", ev), &mut bad);
        if !bad.is_empty() {
            break;
        }
    }
    for p in node.rt.panics() {
        bad.push(("stack:panic".to_string(), format!("a mempool task panicked: {}", p)));
    }
    (bad, steps)
}

pub fn c12(tier: Tier) -> i32 {
    let mut rep = Report::new("C12", tier, "model_checking");
    c12_waiter(&mut rep, tier);
    let committees: Vec<(Vec<u32>, usize)> = match tier {
        Tier::Quick => vec![(vec![1, 1, 1, 1], 0), (vec![1, 1, 1, 2], 0), (vec![1, 1, 1, 2], 3), (vec![3, 1, 1, 1], 1)],
        Tier::Thorough => {
            let mut v = Vec::new();
            for s in [vec![1u32, 1, 1, 1], vec![1, 1, 1, 2], vec![3, 1, 1, 1], vec![2, 2, 1, 1]] {
                for own in 0..4 {
                    v.push((s.clone(), own));
                }
            }
            v
        }
    };
    let maxlen = tier.pick(5usize, 6usize);
    let mut jobs: Vec<(Vec<u32>, usize, usize, Vec<PeerEv>)> = Vec::new();
    for (stakes, own) in &committees {
        let peers: Vec<usize> = (0..4).filter(|i| i != own).collect();
        let mut alphabet = Vec::new();
        for p in &peers {
            alphabet.push(PeerEv::Ack(*p));
            alphabet.push(PeerEv::Cut(*p));
        }
        fn rec(len: usize, a: &[PeerEv], cur: &mut Vec<PeerEv>, out: &mut Vec<Vec<PeerEv>>) {
            if cur.len() == len {
                out.push(cur.clone());
                return;
            }
            for e in a {
                cur.push(*e);
                rec(len, a, cur, out);
                cur.pop();
            }
        }
        let mut seqs = Vec::new();
        rec(maxlen, &alphabet, &mut Vec::new(), &mut seqs);
        for s in seqs {
            jobs.push((stakes.clone(), *own, 1, s.clone()));
            jobs.push((stakes.clone(), *own, 2, s));
        }
        // a second (and third) batch sealed at any point between the peer events
        let mut alpha2 = alphabet.clone();
        alpha2.push(PeerEv::Tx);
        let mut seqs2 = Vec::new();
        rec(maxlen + 1, &alpha2, &mut Vec::new(), &mut seqs2);
        for s in seqs2 {
            let ntx = s.iter().filter(|e| **e == PeerEv::Tx).count();
            let ncut = s.iter().filter(|e| matches!(e, PeerEv::Cut(_))).count();
            if ntx == 0 || ntx > 2 || ncut > 1 || s[0] == PeerEv::Tx {
                continue;
            }
            jobs.push((stakes.clone(), *own, 1, s));
        }
    }
    let results = par_map(jobs.len(), ncpu(), |i| {
        let (stakes, own, nb, evs) = &jobs[i];
        run_c12_stack(stakes, *own, *nb, evs)
    });
    let mut steps = 0u64;
    let mut best: BTreeMap<String, (usize, String, usize)> = BTreeMap::new();
    for (i, (bad, st)) in results.into_iter().enumerate() {
        steps += st;
        for (sig, what) in bad {
            let len = jobs[i].3.len();
            if best.get(&sig).map_or(true, |b| len < b.0) {
                best.insert(sig, (len, what, i));
            }
        }
    }
    for (sig, (_, what, i)) in &best {
        let (stakes, own, nb, evs) = &jobs[*i];
        rep.violation(sig.clone(), format!("[mempool stack stakes {:?} own n{} batches {} events {:?}] {}", stakes, own, nb, evs, what), json!({"engine":"seq-mempool","check":"c12b","stakes":stakes,"own":own,"batches":nb,"events":evs.iter().map(|e| format!("{:?}", e)).collect::<Vec<_>>()}));
    }
    println!("  mempool stack: executions={} peer events={}", jobs.len(), steps);
    rep.add("states", jobs.len() as u64);
    rep.add("transitions", steps);
    rep.add("traces_validated_against_impl", jobs.len() as u64);
    rep.set("stack_bounds", json!({"committees_and_own_node": committees, "peer_event_sequence_length": maxlen, "alphabet":"Ack(peer) = answer the oldest frame the peer has read on its live connection; Cut(peer) = the peer closes its connection before answering (the sender reconnects and retransmits)", "batches_in_flight":"1 and 2 sealed up front; plus sequences one event longer in which 1-2 further batches are sealed at any point between the peer events (at most one cut)"}));
    rep.set("exhaustive", json!(true));
    rep.sample(json!({"stack_execution": format!("{:?}", jobs[jobs.len() / 3])}));
    rep.set("explanation", json!("(a) the real QuorumWaiter fed with harness-owned acknowledgement handles: every acknowledgement order, every set of never-answering peers, 1-2 queued batches, equal and unequal stakes, each member as the own node; after every single acknowledgement the batch must be on the output channel iff own + acknowledged stake >= quorum. (b) the real mempool stack (tx receiver, BatchMaker, ReliableSender, QuorumWaiter, Processor) with the harness as the three peers: every sequence of Ack/Cut events; the digest may reach consensus / the batch may reach the store only when peers that really answered hold a quorum with the node."));
    rep.assume("handles handed to the QuorumWaiter in (a) are never dropped without a reply, as with the real ReliableSender; (b) covers what happens when the transport loses them");
    rep.finish()
}

pub fn debug_c11() {
    let w = World::new(&[1, 1, 1, 1]);
    let (f, _, obs) = run_c11(&w, 10, 20, &[(1, 0), (1, 19), (1, 19)]);
    println!("obs {} findings {:?}", obs, f.iter().map(|x| (&x.sig, &x.what)).collect::<Vec<_>>());
}
