// C19 (a): explicit-state search on the real `Aggregator` to a fixpoint, against a reference model
// (map of signer sets). Every operation sequence over the alphabet is covered because the search
// closes over all reachable aggregator states and tries every operation in each.
use crate::util::Report;
use crate::util::Tier;
use crate::world::World;
use consensus::verif::{Aggregator, ConsensusError, Round, Timeout, Vote};
use consensus::QC;
use crypto::{Digest, Hash as _};
use serde_json::json;
use std::collections::{BTreeMap, BTreeSet, HashMap, VecDeque};

#[derive(Clone, Debug, PartialEq, Eq, Hash, PartialOrd, Ord)]
enum Op {
    Vote(usize, u8, Round),           // author, block tag, round
    Timeout(usize, Round, Round),     // author, round, high qc round
    Cleanup(Round),
}

#[derive(Clone, Debug, Default, PartialEq, Eq, Hash, PartialOrd, Ord)]
struct RefState {
    // (round, block tag) -> (signers in arrival order, made)
    votes: BTreeMap<(Round, u8), (BTreeSet<usize>, bool)>,
    // round -> ((author, hqc) in arrival order, made)
    timeouts: BTreeMap<Round, (BTreeSet<(usize, Round)>, bool)>,
}

fn tag_digest(tag: u8) -> Digest {
    Digest([tag.wrapping_add(0x40); 32])
}

struct Ctx {
    w: World,
    votes: HashMap<Op, Vote>,
    timeouts: HashMap<Op, Timeout>,
}

fn apply_real(ctx: &Ctx, agg: &mut Aggregator, op: &Op) -> Result<Option<Result<QC, consensus::TC>>, String> {
    match op {
        Op::Vote(..) => match agg.add_vote(ctx.votes[op].clone()) {
            Ok(Some(qc)) => Ok(Some(Ok(qc))),
            Ok(None) => Ok(None),
            Err(ConsensusError::AuthorityReuse(_)) => Err("reuse".into()),
            Err(e) => Err(format!("{}", e)),
        },
        Op::Timeout(..) => match agg.add_timeout(ctx.timeouts[op].clone()) {
            Ok(Some(tc)) => Ok(Some(Err(tc))),
            Ok(None) => Ok(None),
            Err(ConsensusError::AuthorityReuse(_)) => Err("reuse".into()),
            Err(e) => Err(format!("{}", e)),
        },
        Op::Cleanup(r) => {
            agg.cleanup(r);
            Ok(None)
        }
    }
}

fn summary_of(ctx: &Ctx, agg: &Aggregator, tags: &[(u8, Round)]) -> (BTreeMap<(Round, u8), Vec<usize>>, BTreeMap<Round, Vec<(usize, Round)>>) {
    let (v, t) = agg.verif_summary();
    let mut vm = BTreeMap::new();
    for (round, vd, _w, signers) in v {
        let tag = tags
            .iter()
            .find(|(tag, r)| *r == round && QC { hash: tag_digest(*tag), round, votes: vec![] }.digest() == vd)
            .map(|x| x.0)
            .unwrap_or(255);
        vm.insert((round, tag), signers.iter().map(|k| ctx.w.index_of(k).unwrap_or(99)).collect());
    }
    let mut tm = BTreeMap::new();
    for (round, _w, signers) in t {
        tm.insert(round, signers.iter().map(|(k, h)| (ctx.w.index_of(k).unwrap_or(99), *h)).collect());
    }
    (vm, tm)
}

fn explore(rep: &mut Report, name: &str, stakes: &[u32], alphabet: Vec<Op>) {
    let w = World::new(stakes);
    let q = w.ref_quorum();
    let mut ctx = Ctx { w, votes: HashMap::new(), timeouts: HashMap::new() };
    let mut tags: Vec<(u8, Round)> = Vec::new();
    for op in &alphabet {
        match op {
            Op::Vote(a, tag, r) => {
                ctx.votes.insert(op.clone(), ctx.w.vote_for(*a, tag_digest(*tag), *r));
                if !tags.contains(&(*tag, *r)) {
                    tags.push((*tag, *r));
                }
            }
            Op::Timeout(a, r, h) => {
                let qc = if *h == 0 { QC::genesis() } else { ctx.w.qc_for(tag_digest(9), *h, &(0..ctx.w.n()).collect::<Vec<_>>()) };
                ctx.timeouts.insert(op.clone(), ctx.w.timeout(*a, *r, qc));
            }
            Op::Cleanup(_) => {}
        }
    }
    let stake = |v: &mut dyn Iterator<Item = usize>| -> u64 { v.map(|i| ctx.w.stakes[i] as u64).sum() };
    let mut seen: HashMap<RefState, Vec<Op>> = HashMap::new();
    let mut queue: VecDeque<RefState> = VecDeque::new();
    seen.insert(RefState::default(), Vec::new());
    queue.push_back(RefState::default());
    let mut transitions = 0u64;
    let mut certs = 0u64;
    let mut rejects = 0u64;
    let mut cert_cache: HashMap<u64, bool> = HashMap::new();
    let mut viol = |rep: &mut Report, sig: &str, what: String, path: &[Op], op: &Op| {
        rep.violation(
            format!("aggregator:{}", sig),
            format!("[aggregator {} stakes {:?}] {}", name, stakes, what),
            json!({"engine":"seq-aggregator","stakes":stakes,"ops":path.iter().map(|o| format!("{:?}", o)).collect::<Vec<_>>(),"last":format!("{:?}", op)}),
        );
    };
    while let Some(st) = queue.pop_front() {
        let path = seen[&st].clone();
        for op in &alphabet {
            // rebuild the real aggregator in state `st`
            let mut agg = Aggregator::new(ctx.w.committee.clone());
            for o in &path {
                let _ = apply_real(&ctx, &mut agg, o);
            }
            let got = apply_real(&ctx, &mut agg, op);
            transitions += 1;
            // reference
            let mut next = st.clone();
            let mut expect_cert = false;
            let mut expect_reuse = false;
            match op {
                Op::Vote(a, tag, r) => {
                    let e = next.votes.entry((*r, *tag)).or_default();
                    if e.0.contains(a) {
                        expect_reuse = true;
                    } else {
                        let before = stake(&mut e.0.iter().cloned());
                        e.0.insert(*a);
                        let after = stake(&mut e.0.iter().cloned());
                        if before < q && after >= q && !e.1 {
                            e.1 = true;
                            expect_cert = true;
                        }
                    }
                }
                Op::Timeout(a, r, h) => {
                    let e = next.timeouts.entry(*r).or_default();
                    if e.0.iter().any(|(x, _)| x == a) {
                        expect_reuse = true;
                    } else {
                        let before = stake(&mut e.0.iter().map(|x| x.0));
                        e.0.insert((*a, *h));
                        let after = stake(&mut e.0.iter().map(|x| x.0));
                        if before < q && after >= q && !e.1 {
                            e.1 = true;
                            expect_cert = true;
                        }
                    }
                }
                Op::Cleanup(r) => {
                    next.votes.retain(|(rr, _), _| rr >= r);
                    next.timeouts.retain(|rr, _| rr >= r);
                }
            }
            let mut full = path.clone();
            full.push(op.clone());
            match (&got, expect_reuse, expect_cert) {
                (Err(e), true, _) if e == "reuse" => rejects += 1,
                (Err(e), _, _) => viol(rep, "unexpected-error", format!("operation {:?} returned error '{}' (repeated author expected: {})", op, e, expect_reuse), &full, op),
                (Ok(_), true, _) => viol(rep, "repeated-author-accepted", format!("{:?}: a repeated author was accepted", op), &full, op),
                (Ok(None), false, true) => viol(rep, "certificate-missing", format!("{:?}: distinct signers reached the quorum {} but no certificate was returned", op, q), &full, op),
                (Ok(Some(_)), false, false) => viol(rep, "certificate-early-or-twice", format!("{:?}: a certificate was returned although the distinct-signer stake did not just cross the quorum {}", op, q), &full, op),
                (Ok(None), false, false) => {}
                (Ok(Some(c)), false, true) => {
                    certs += 1;
                    match c {
                        Ok(qc) => {
                            if let Op::Vote(_, tag, r) = op {
                                let want: Vec<usize> = next.votes[&(*r, *tag)].0.iter().cloned().collect();
                                let gotv: Vec<usize> = qc.votes.iter().map(|(k, _)| ctx.w.index_of(k).unwrap_or(99)).collect();
                                let ws: BTreeSet<usize> = want.iter().cloned().collect();
                                let gs: BTreeSet<usize> = gotv.iter().cloned().collect();
                                if ws != gs || gotv.len() != gs.len() {
                                    viol(rep, "qc-signers-differ", format!("QC signers {:?} differ from the contributing authors {:?}", gotv, want), &full, op);
                                }
                                if qc.hash != tag_digest(*tag) || qc.round != *r {
                                    viol(rep, "qc-mixed", "QC is for another block or round than the votes".to_string(), &full, op);
                                }
                                let ck = crate::util::hash64(&bincode::serialize(qc).unwrap());
                                let ok = *cert_cache.entry(ck).or_insert_with(|| ctx.w.ref_valid_qc(qc) && qc.verify(&ctx.w.committee).is_ok());
                                if !ok {
                                    viol(rep, "qc-invalid", format!("assembled QC does not verify (reference {}, QC::verify {})", ctx.w.ref_valid_qc(qc), qc.verify(&ctx.w.committee).is_ok()), &full, op);
                                }
                            }
                        }
                        Err(tc) => {
                            if let Op::Timeout(_, r, _) = op {
                                let want: BTreeSet<(usize, Round)> = next.timeouts[r].0.iter().cloned().collect();
                                let gotv: Vec<(usize, Round)> = tc.votes.iter().map(|(k, _, h)| (ctx.w.index_of(k).unwrap_or(99), *h)).collect();
                                let gs: BTreeSet<(usize, Round)> = gotv.iter().cloned().collect();
                                if want != gs || gotv.len() != gs.len() {
                                    viol(rep, "tc-entries-differ", format!("TC entries {:?} differ from the contributing timeouts {:?}", gotv, want), &full, op);
                                }
                                if tc.round != *r {
                                    viol(rep, "tc-mixed", "TC is for another round than the timeouts".to_string(), &full, op);
                                }
                                let ck = crate::util::hash64(&bincode::serialize(tc).unwrap());
                                let ok = *cert_cache.entry(ck).or_insert_with(|| ctx.w.ref_valid_tc(tc) && tc.verify(&ctx.w.committee).is_ok());
                                if !ok {
                                    viol(rep, "tc-invalid", format!("assembled TC does not verify (reference {}, TC::verify {})", ctx.w.ref_valid_tc(tc), tc.verify(&ctx.w.committee).is_ok()), &full, op);
                                }
                            }
                        }
                    }
                }
            }
            // the code's visible state must match the reference signer lists
            let (vm, tm) = summary_of(&ctx, &agg, &tags);
            let rv: BTreeMap<(Round, u8), BTreeSet<usize>> = next.votes.iter().map(|(k, v)| (*k, v.0.clone())).collect();
            let rt: BTreeMap<Round, BTreeSet<(usize, Round)>> = next.timeouts.iter().map(|(k, v)| (*k, v.0.clone())).collect();
            let vm: BTreeMap<(Round, u8), BTreeSet<usize>> = vm.into_iter().map(|(k, v)| (k, v.into_iter().collect())).collect();
            let tm: BTreeMap<Round, BTreeSet<(usize, Round)>> = tm.into_iter().map(|(k, v)| (k, v.into_iter().collect())).collect();
            if vm != rv || tm != rt {
                viol(rep, "state-differs", format!("after {:?} the aggregator holds votes {:?} timeouts {:?}, reference {:?} {:?}", op, vm, tm, rv, rt), &full, op);
            }
            if !seen.contains_key(&next) {
                seen.insert(next.clone(), full);
                queue.push_back(next);
            }
        }
    }
    println!("  aggregator {} stakes {:?}: states={} transitions={} certificates={} repeated-author rejections={}", name, stakes, seen.len(), transitions, certs, rejects);
    rep.add("states", seen.len() as u64);
    rep.add("transitions", transitions);
    rep.add("traces_validated_against_impl", transitions);
    rep.add("aggregator_certificates_assembled", certs);
    rep.add("aggregator_repeated_author_rejections", rejects);
    let mut prev: Vec<serde_json::Value> = rep.coverage.get("aggregator_runs").and_then(|v| v.as_array().cloned()).unwrap_or_default();
    prev.push(json!({"alphabet": name, "stakes": stakes, "states": seen.len(), "transitions": transitions, "certificates": certs, "fixpoint": true}));
    rep.set("aggregator_runs", serde_json::Value::Array(prev));
}

pub fn run(rep: &mut Report, tier: Tier) {
    let committees: Vec<Vec<u32>> = vec![vec![1, 1, 1, 1], vec![1, 1, 1, 2], vec![3, 1, 1, 1], vec![2, 2, 1, 1]];
    for stakes in &committees {
        let n = stakes.len();
        // votes on three makers + cleanup
        let mut a = Vec::new();
        for au in 0..n {
            a.push(Op::Vote(au, 0, 1));
            a.push(Op::Vote(au, 1, 1));
            a.push(Op::Vote(au, 0, 2));
        }
        a.push(Op::Cleanup(2));
        a.push(Op::Cleanup(3));
        explore(rep, "votes(X@1,Y@1,X@2)+cleanup", stakes, a);
        // timeouts on two rounds with two claims + cleanup
        let mut a = Vec::new();
        for au in 0..n {
            for r in 1..=2 {
                for h in 0..=1 {
                    a.push(Op::Timeout(au, r, h));
                }
            }
        }
        a.push(Op::Cleanup(2));
        a.push(Op::Cleanup(3));
        explore(rep, "timeouts(r1,r2 x hqc0,1)+cleanup", stakes, a);
        // mixed
        let mut a = Vec::new();
        for au in 0..n {
            a.push(Op::Vote(au, 0, 1));
            a.push(Op::Vote(au, 1, 1));
            a.push(Op::Timeout(au, 1, 0));
            a.push(Op::Timeout(au, 1, 1));
        }
        a.push(Op::Cleanup(2));
        explore(rep, "votes(X@1,Y@1)+timeouts(r1)+cleanup", stakes, a);
    }
    if tier == Tier::Thorough {
        let stakes = vec![1u32; 7];
        let mut a = Vec::new();
        for au in 0..7 {
            a.push(Op::Vote(au, 0, 1));
            a.push(Op::Vote(au, 1, 1));
        }
        a.push(Op::Cleanup(2));
        explore(rep, "votes(X@1,Y@1)+cleanup", &stakes, a);
        let mut a = Vec::new();
        for au in 0..7 {
            a.push(Op::Timeout(au, 1, 0));
            a.push(Op::Timeout(au, 1, 1));
        }
        a.push(Op::Cleanup(2));
        explore(rep, "timeouts(r1 x hqc0,1)+cleanup", &stakes, a);
    }
}
