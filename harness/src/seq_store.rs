// C16: every operation sequence up to a length bound on the real Store (RocksDB on /dev/shm),
// issued from several cloned handles / concurrent waiter tasks, against a reference store
// (map + waiters). Because the store is one task draining one FIFO channel, the order in which
// commands enter that channel is the only thing concurrent handles can influence; enumerating all
// sequences (with waiters parked and cancelled at every position) enumerates all those orders.
use crate::driver::Rt;
use crate::util::{ncpu, par_map, Report, Tier};
use serde_json::json;
use std::collections::{BTreeMap, HashSet};
use store::Store;
use tokio::task::JoinHandle;

#[derive(Clone, Copy, Debug, PartialEq, Eq, Hash)]
enum Op {
    Write(u8),
    Read(u8),
    Notify(u8),
    CancelOldest,
    CancelNewest,
    Reopen,
    /// two operations issued concurrently from two handles (both tasks are started before the
    /// store task runs); 0 = write, 1 = read, 2 = notify_read
    Pair((u8, u8), (u8, u8)),
}

struct Waiter {
    key: u8,
    handle: JoinHandle<Result<Vec<u8>, store::StoreError>>,
    cancelled: bool,
    done: bool,
    /// value the key held when the waiter was started concurrently with a write (also acceptable)
    alt: Option<Vec<u8>>,
}

fn name(op: &Op) -> String {
    match op {
        Op::Write(k) => format!("write({})", (b'a' + k) as char),
        Op::Read(k) => format!("read({})", (b'a' + k) as char),
        Op::Notify(k) => format!("notify_read({})", (b'a' + k) as char),
        Op::CancelOldest => "cancel(oldest pending notify_read)".into(),
        Op::CancelNewest => "cancel(newest pending notify_read)".into(),
        Op::Reopen => "reopen".into(),
        Op::Pair(a, b) => {
            let f = |x: &(u8, u8)| format!("{}({})", ["write", "read", "notify_read"][x.0 as usize % 3], (b'a' + x.1) as char);
            format!("{} || {}", f(a), f(b))
        }
    }
}

struct Env {
    rt: Rt,
    path: String,
    store: Option<Store>,
}

/// Run one sequence; returns Err(description) on the first divergence from the reference store.
fn run_seq(env: &mut Env, exec_id: u64, seq: &[Op], outcome: &mut Vec<u8>) -> Result<(), (String, String)> {
    let key = |k: u8| -> Vec<u8> {
        let mut v = exec_id.to_be_bytes().to_vec();
        v.push(k);
        v
    };
    let mut model: BTreeMap<u8, Vec<u8>> = BTreeMap::new();
    let mut waiters: Vec<Waiter> = Vec::new();
    let mut counter = 0u8;
    for (i, op) in seq.iter().enumerate() {
        let store = env.store.as_ref().unwrap();
        match op {
            Op::Write(k) => {
                counter += 1;
                let val = vec![*k, counter, i as u8];
                let mut s = store.clone(); // a fresh handle per operation
                let kk = key(*k);
                let vv = val.clone();
                env.rt.block_on(async move { s.write(kk, vv).await });
                model.insert(*k, val);
            }
            Op::Read(k) => {
                let mut s = store.clone();
                let kk = key(*k);
                let got = env.rt.block_on(async move { s.read(kk).await });
                let want = model.get(k).cloned();
                outcome.push(if want.is_some() { 1 } else { 0 });
                match got {
                    Ok(g) if g == want => {}
                    other => {
                        return Err(("read-wrong-value".into(), format!("step {} {}: read returned {:?}, reference {:?}", i, name(op), other.map_err(|e| e.to_string()), want)));
                    }
                }
            }
            Op::Notify(k) => {
                let mut s = store.clone();
                let kk = key(*k);
                simnet_enter(&env.rt);
                let handle = env.rt.rt.spawn(async move { s.notify_read(kk).await });
                waiters.push(Waiter { key: *k, handle, cancelled: false, done: false, alt: None });
            }
            Op::CancelOldest | Op::CancelNewest => {
                let pending: Vec<usize> = waiters.iter().enumerate().filter(|(_, w)| !w.cancelled && !w.done).map(|(i, _)| i).collect();
                let pick = if *op == Op::CancelOldest { pending.first() } else { pending.last() };
                if let Some(&w) = pick {
                    waiters[w].handle.abort();
                    waiters[w].cancelled = true;
                }
            }
            Op::Pair(a, b) => {
                let before = model.clone();
                let mut reads: Vec<(u8, JoinHandle<Result<Option<Vec<u8>>, store::StoreError>>)> = Vec::new();
                simnet_enter(&env.rt);
                for (kind, k) in [*a, *b] {
                    let mut s = store.clone();
                    let kk = key(k);
                    match kind {
                        0 => {
                            counter += 1;
                            let val = vec![k, counter, i as u8];
                            model.insert(k, val.clone());
                            let _ = env.rt.rt.spawn(async move { s.write(kk, val).await });
                        }
                        1 => reads.push((k, env.rt.rt.spawn(async move { s.read(kk).await }))),
                        _ => {
                            let handle = env.rt.rt.spawn(async move { s.notify_read(kk).await });
                            waiters.push(Waiter { key: k, handle, cancelled: false, done: false, alt: before.get(&k).cloned() });
                        }
                    }
                }
                env.rt.quiesce();
                for (k, mut h) in reads {
                    if !h.is_finished() {
                        return Err(("read-stuck".into(), format!("step {} {}: a concurrent read never returned", i, name(op))));
                    }
                    let got = env.rt.block_on(&mut h).ok().and_then(|r| r.ok()).flatten();
                    outcome.push(if got.is_some() { 1 } else { 0 });
                    if got != before.get(&k).cloned() && got != model.get(&k).cloned() {
                        return Err(("read-wrong-value".into(), format!("step {} {}: a concurrent read returned {:?}, neither the value before ({:?}) nor after ({:?}) the concurrent write", i, name(op), got, before.get(&k), model.get(&k))));
                    }
                }
            }
            Op::Reopen => {
                for w in waiters.iter_mut() {
                    if !w.done && !w.cancelled {
                        w.handle.abort();
                        w.cancelled = true;
                    }
                }
                env.store = None;
                env.rt.quiesce();
                env.rt.quiesce();
                let path = env.path.clone();
                let mut opened = None;
                for _ in 0..50 {
                    match env.rt.block_on(async { Store::new(&path) }) {
                        Ok(s) => {
                            opened = Some(s);
                            break;
                        }
                        Err(_) => env.rt.quiesce(),
                    }
                }
                match opened {
                    Some(s) => env.store = Some(s),
                    None => return Err(("reopen-failed".into(), format!("step {}: the store could not be reopened after all handles were dropped", i))),
                }
            }
        }
        env.rt.quiesce();
        // every waiter must be completed iff the reference says so, with the reference value
        for (wi, w) in waiters.iter_mut().enumerate() {
            if w.cancelled || w.done {
                continue;
            }
            let should = model.get(&w.key).cloned();
            let finished = w.handle.is_finished();
            match (finished, should) {
                (false, None) => {}
                (true, Some(want)) => {
                    let res = env.rt.block_on(&mut w.handle);
                    w.done = true;
                    outcome.push(2);
                    match res {
                        Ok(Ok(v)) if v == want || Some(&v) == w.alt.as_ref() => {}
                        Ok(Ok(v)) => return Err(("notify-wrong-value".into(), format!("step {} {}: waiter #{} on key {} completed with {:?}, reference {:?}", i, name(op), wi, (b'a' + w.key) as char, v, want))),
                        Ok(Err(e)) => return Err(("notify-error".into(), format!("step {} {}: waiter #{} failed: {}", i, name(op), wi, e))),
                        Err(e) => return Err(("notify-waiter-dropped".into(), format!("step {} {}: waiter #{} on key {} never received the value (task failed: {})", i, name(op), wi, (b'a' + w.key) as char, if e.is_panic() { "panicked: reply channel dropped" } else { "cancelled" }))),
                    }
                }
                (false, Some(want)) => {
                    return Err(("notify-missed-write".into(), format!("step {} {}: waiter #{} on key {} is still pending although the key holds {:?}", i, name(op), wi, (b'a' + w.key) as char, want)));
                }
                (true, None) => {
                    let res = env.rt.block_on(&mut w.handle);
                    w.done = true;
                    return Err(("notify-spurious".into(), format!("step {} {}: waiter #{} on key {} completed ({:?}) although the key was never written", i, name(op), wi, (b'a' + w.key) as char, res.map(|r| r.map_err(|e| e.to_string())).map_err(|e| e.to_string()))));
                }
            }
        }
        let _ = env.rt.panics();
    }
    for w in waiters.iter() {
        if !w.done {
            w.handle.abort();
        }
    }
    env.rt.quiesce();
    Ok(())
}

fn simnet_enter(rt: &Rt) {
    network::simnet::enter(rt.ns);
}

fn gen(len: usize, alphabet: &[Op], cur: &mut Vec<Op>, out: &mut Vec<Vec<Op>>) {
    if !cur.is_empty() {
        out.push(cur.clone());
    }
    if cur.len() == len {
        return;
    }
    for op in alphabet {
        // prune sequences whose cancel has nothing to cancel (no effect, duplicates of shorter ones)
        if matches!(op, Op::CancelOldest | Op::CancelNewest) {
            let pending = cur.iter().filter(|o| matches!(o, Op::Notify(_))).count() as i64 - cur.iter().filter(|o| matches!(o, Op::CancelOldest | Op::CancelNewest)).count() as i64;
            if pending <= 0 {
                continue;
            }
        }
        if *op == Op::Reopen && cur.contains(&Op::Reopen) {
            continue;
        }
        cur.push(*op);
        gen(len, alphabet, cur, out);
        cur.pop();
    }
}

/// Bursts around the command channel's capacity: many operations issued back to back by tasks that
/// never wait for the store task in between, from one and from several handles.
fn bursts(rep: &mut Report) -> u64 {
    let rt = Rt::new();
    let path = format!("/dev/shm/hsv-c16-burst-{}", std::process::id());
    let _ = std::fs::remove_dir_all(&path);
    let store = rt.block_on(async { Store::new(&path) }).expect("rocksdb");
    let mut ops = 0u64;
    let mut exec = 0u64;
    for handles in [1usize, 2, 4] {
        for per_handle in [50usize, 99, 100, 101, 102, 150, 250] {
            for waiters in [false, true] {
                exec += 1;
                let prefix = exec.to_be_bytes().to_vec();
                let key = |h: usize, i: usize| -> Vec<u8> {
                    let mut k = prefix.clone();
                    k.push(h as u8);
                    k.extend_from_slice(&(i as u32).to_be_bytes());
                    k
                };
                network::simnet::enter(rt.ns);
                // waiters parked on each handle's last key
                let mut ws = Vec::new();
                if waiters {
                    for h in 0..handles {
                        let mut s = store.clone();
                        let k = key(h, per_handle - 1);
                        ws.push(rt.rt.spawn(async move { s.notify_read(k).await }));
                    }
                    rt.quiesce();
                }
                let mut tasks = Vec::new();
                for h in 0..handles {
                    let mut s = store.clone();
                    let keys: Vec<Vec<u8>> = (0..per_handle).map(|i| key(h, i)).collect();
                    tasks.push(rt.rt.spawn(async move {
                        for (i, k) in keys.into_iter().enumerate() {
                            s.write(k, vec![h as u8, (i % 251) as u8]).await;
                        }
                    }));
                }
                for _ in 0..20 {
                    rt.quiesce();
                }
                ops += (handles * per_handle) as u64;
                let mut missing = Vec::new();
                for h in 0..handles {
                    for i in 0..per_handle {
                        let mut s = store.clone();
                        let k = key(h, i);
                        let got = rt.block_on(async move { s.read(k).await });
                        if got.ok().flatten() != Some(vec![h as u8, (i % 251) as u8]) {
                            missing.push((h, i));
                        }
                    }
                }
                if !missing.is_empty() {
                    rep.violation("store:burst-write-lost".into(), format!("[burst: {} handles x {} back-to-back writes] {} acknowledged writes are not visible to later reads, first: handle {} write #{}", handles, per_handle, missing.len(), missing[0].0, missing[0].1), json!({"engine":"seq-store","burst":{"handles":handles,"writes_per_handle":per_handle,"waiters":waiters}}));
                }
                for (h, wt) in ws.into_iter().enumerate() {
                    if !wt.is_finished() {
                        rep.violation("store:burst-waiter-missed".into(), format!("[burst: {} handles x {} writes] the notify_read parked on handle {}'s last key never completed", handles, per_handle, h), json!({"engine":"seq-store","burst":{"handles":handles,"writes_per_handle":per_handle,"waiters":waiters}}));
                        wt.abort();
                    }
                }
                for t in tasks {
                    if !t.is_finished() {
                        rep.violation("store:burst-stuck".into(), format!("[burst: {} handles x {} writes] a writer task never finished", handles, per_handle), json!({"engine":"seq-store"}));
                        t.abort();
                    }
                }
            }
        }
    }
    drop(store);
    rt.quiesce();
    drop(rt);
    let _ = std::fs::remove_dir_all(&path);
    rep.set("burst_executions", json!(exec));
    rep.set("burst_bounds", json!("1/2/4 handles x {50,99,100,101,102,150,250} back-to-back writes each (the command channel holds 100), with and without a notify_read parked on each handle's last key"));
    ops
}

pub fn c16(tier: Tier) -> i32 {
    let mut rep = Report::new("C16", tier, "model_checking");
    let base = [Op::Write(0), Op::Write(1), Op::Read(0), Op::Read(1), Op::Notify(0), Op::Notify(1), Op::CancelOldest, Op::CancelNewest];
    let mut seqs: Vec<Vec<Op>> = Vec::new();
    gen(tier.pick(5, 6), &base, &mut Vec::new(), &mut seqs);
    let n_plain = seqs.len();
    // many waiters on one key, then one write (1..=6 waiters, each subset position cancelled)
    for n in 1..=6usize {
        let mut s: Vec<Op> = (0..n).map(|_| Op::Notify(0)).collect();
        s.push(Op::Write(0));
        s.push(Op::Read(0));
        seqs.push(s);
    }
    // concurrent pairs: every step is a single operation or two operations issued concurrently
    {
        let prims: Vec<(u8, u8)> = vec![(0, 0), (0, 1), (1, 0), (1, 1), (2, 0), (2, 1)];
        let mut alpha3: Vec<Op> = vec![Op::Write(0), Op::Write(1), Op::Notify(0), Op::Notify(1), Op::Read(0)];
        for a in &prims {
            for b in &prims {
                if a.0 == 0 && b.0 == 0 && a.1 == b.1 {
                    continue; // two concurrent writes to one key: the final value is not determined
                }
                alpha3.push(Op::Pair(*a, *b));
            }
        }
        let mut all3 = Vec::new();
        gen(tier.pick(2, 3), &alpha3, &mut Vec::new(), &mut all3);
        for s in all3 {
            if s.iter().any(|o| matches!(o, Op::Pair(..))) {
                seqs.push(s);
            }
        }
    }
    // with one reopen anywhere
    let mut with_reopen: Vec<Vec<Op>> = Vec::new();
    let mut alpha2 = base.to_vec();
    alpha2.push(Op::Reopen);
    let mut all2 = Vec::new();
    gen(tier.pick(3, 4), &alpha2, &mut Vec::new(), &mut all2);
    for s in all2 {
        if s.contains(&Op::Reopen) {
            with_reopen.push(s);
        }
    }
    let n_reopen = with_reopen.len();
    let threads = ncpu();
    let chunk = (seqs.len() + threads - 1) / threads;
    let pid = std::process::id();
    let results = par_map(threads, threads, |t| {
        let lo = t * chunk;
        let hi = std::cmp::min(seqs.len(), lo + chunk);
        let rt = Rt::new();
        let path = format!("/dev/shm/hsv-c16-{}-{}", pid, t);
        let _ = std::fs::remove_dir_all(&path);
        let store = rt.block_on(async { Store::new(&path) }).expect("rocksdb");
        let mut env = Env { rt, path: path.clone(), store: Some(store) };
        let mut bad: Vec<(usize, String, String)> = Vec::new();
        let mut outcomes: HashSet<Vec<u8>> = HashSet::new();
        let mut steps = 0u64;
        for i in lo..hi {
            let mut outcome = Vec::new();
            steps += seqs[i].len() as u64;
            if let Err((sig, what)) = run_seq(&mut env, (t as u64) << 40 | i as u64, &seqs[i], &mut outcome) {
                if bad.len() < 20 {
                    bad.push((i, sig, what));
                }
            }
            outcomes.insert(outcome);
        }
        // reopen sequences: own directory per execution
        let mut rbad: Vec<(usize, String, String)> = Vec::new();
        for (j, s) in with_reopen.iter().enumerate() {
            if j % threads != t {
                continue;
            }
            let rpath = format!("/dev/shm/hsv-c16-{}-{}-r", pid, t);
            let _ = std::fs::remove_dir_all(&rpath);
            let rt2 = Rt::new();
            let st = rt2.block_on(async { Store::new(&rpath) }).expect("rocksdb");
            let mut env2 = Env { rt: rt2, path: rpath.clone(), store: Some(st) };
            let mut outcome = Vec::new();
            steps += s.len() as u64;
            if let Err((sig, what)) = run_seq(&mut env2, j as u64, s, &mut outcome) {
                if rbad.len() < 20 {
                    rbad.push((j, sig, what));
                }
            }
            outcomes.insert(outcome);
            env2.store = None;
            env2.rt.quiesce();
            drop(env2);
            let _ = std::fs::remove_dir_all(&rpath);
        }
        env.store = None;
        env.rt.quiesce();
        drop(env);
        let _ = std::fs::remove_dir_all(&path);
        (bad, rbad, outcomes.len(), steps)
    });
    let mut steps = 0u64;
    let mut outcomes = 0usize;
    for (bad, rbad, o, st) in results {
        steps += st;
        outcomes += o;
        for (i, sig, what) in bad {
            rep.violation(format!("store:{}", sig), format!("[sequence {}] {}", seqs[i].iter().map(name).collect::<Vec<_>>().join(", "), what), json!({"engine":"seq-store","sequence":seqs[i].iter().map(name).collect::<Vec<_>>()}));
        }
        for (j, sig, what) in rbad {
            rep.violation(format!("store:{}", sig), format!("[sequence {}] {}", with_reopen[j].iter().map(name).collect::<Vec<_>>().join(", "), what), json!({"engine":"seq-store","sequence":with_reopen[j].iter().map(name).collect::<Vec<_>>()}));
        }
    }
    let burst_ops = bursts(&mut rep);
    steps += burst_ops;
    println!("  store: sequences={} (+{} with reopen), operations executed={}, distinct observation vectors (per worker, summed)={}", seqs.len(), n_reopen, steps, outcomes);
    rep.set("states", json!(seqs.len() + n_reopen));
    rep.set("transitions", json!(steps));
    rep.set("traces_validated_against_impl", json!(seqs.len() + n_reopen));
    rep.set("sequences_without_reopen", json!(n_plain));
    rep.set("sequences_with_reopen", json!(n_reopen));
    rep.set("distinct_observation_vectors", json!(outcomes));
    rep.set("exhaustive", json!(true));
    rep.set("bounds", json!({"alphabet":"write/read/notify_read on keys a,b (fresh value per write, fresh cloned handle per operation), cancel oldest/newest pending notify_read, reopen","max_length_plain":tier.pick(5,6),"max_length_with_one_reopen":tier.pick(3,4),"waiters_on_one_key":"1..=6 then write","concurrent_pairs":"sequences of 2/3 steps in which steps may be two operations (write/read/notify_read on a/b) started concurrently from two handles before the store task runs; outcomes must be linearizable"}));
    rep.sample(json!({"sequence": seqs[seqs.len() / 2].iter().map(name).collect::<Vec<_>>()}));
    rep.sample(json!({"sequence": with_reopen[with_reopen.len() / 2].iter().map(name).collect::<Vec<_>>()}));
    rep.assume("the store is a single task draining one FIFO command channel, so every behaviour of concurrent handles is an order of commands in that channel; RocksDB on /dev/shm; crash consistency (torn writes) is not part of the property (reopen is a clean drop of all handles)");
    rep.set("explanation", json!("states = operation sequences executed on the real store (each is a distinct history), transitions = operations executed; the reference store is checked after every operation for every live waiter"));
    rep.finish()
}

pub fn replay(v: &serde_json::Value) -> i32 {
    let mut seq = Vec::new();
    for o in v["replay"]["sequence"].as_array().cloned().unwrap_or_default() {
        let o = o.as_str().unwrap_or("").to_string();
        let key = |s: &str| if s.contains("(b)") { 1u8 } else { 0u8 };
        let op = if o.starts_with("write") { Op::Write(key(&o)) } else if o.starts_with("read") { Op::Read(key(&o)) } else if o.starts_with("notify_read") { Op::Notify(key(&o)) } else if o.contains("oldest") { Op::CancelOldest } else if o.contains("newest") { Op::CancelNewest } else { Op::Reopen };
        seq.push(op);
    }
    let rt = Rt::new();
    let path = format!("/dev/shm/hsv-c16-replay-{}", std::process::id());
    let _ = std::fs::remove_dir_all(&path);
    let store = rt.block_on(async { Store::new(&path) }).expect("rocksdb");
    let mut env = Env { rt, path: path.clone(), store: Some(store) };
    let mut outcome = Vec::new();
    let r = run_seq(&mut env, 1, &seq, &mut outcome);
    println!("sequence: {}", seq.iter().map(name).collect::<Vec<_>>().join(", "));
    env.store = None;
    env.rt.quiesce();
    drop(env);
    let _ = std::fs::remove_dir_all(&path);
    match r {
        Ok(()) => {
            println!("replay did not reproduce a violation of C16");
            0
        }
        Err((sig, what)) => {
            println!("[{}] {}", sig, what);
            1
        }
    }
}
