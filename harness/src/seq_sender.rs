// C14: bounded exhaustive exploration of the real ReliableSender (+ its Connection task) with
// the harness as the peer and as the network: every interleaving of hand-overs, peer reads, peer
// answers, cancellations, connection cuts and refused connects up to a depth and deviation bound,
// each followed by a stabilisation phase, against a reference reliable channel.
use crate::driver::Rt;
use crate::util::{ncpu, Report, Tier};
use bytes::Bytes;
use network::simnet::{self, Endpoint};
use network::{CancelHandler, ReliableSender};
use serde_json::json;
use std::collections::{BTreeMap, BTreeSet};
use std::net::SocketAddr;
use std::sync::atomic::{AtomicU64, Ordering};
use std::sync::Mutex;

#[derive(Clone, Copy, Debug, PartialEq, Eq, Hash, PartialOrd, Ord)]
enum Op {
    Send,        // hand over the next message
    Read,        // peer reads the oldest frame in flight on the live connection
    Answer,      // peer answers the oldest frame it has read and not answered
    Cut,         // peer closes the live connection (unread frames and unanswered reads are lost)
    Refuse,      // connects are refused from now on
    Accept,      // connects are accepted again
    Timer,       // let the reconnect back-off expire
    Drop(u8),    // the caller drops handle k
}

fn deviation(op: &Op) -> u32 {
    match op {
        Op::Cut | Op::Refuse | Op::Drop(_) => 1,
        _ => 0,
    }
}

struct Exec {
    rt: Rt,
    sender: ReliableSender,
    addr: SocketAddr,
    handles: BTreeMap<u8, CancelHandler>,
    dropped_at_conn: BTreeMap<u8, u64>, // message -> number of connections established when dropped
    sent: u8,
    conns: Vec<Endpoint>,
    live: Option<usize>,
    read_unanswered: Vec<(u8, u64)>, // (message, conn) read on the live connection, oldest first
    reads: Vec<(u8, u64)>,           // every read: (message, connection index)
    answers: BTreeMap<u8, BTreeSet<Vec<u8>>>, // message -> answers the peer gave to it
    answer_seq: u64,
    resolved: BTreeMap<u8, Vec<u8>>,
    refusing: bool,
}

const M: u8 = 3;

impl Exec {
    fn new() -> Self {
        let rt = Rt::new();
        let sender = rt.block_on(async { ReliableSender::new() });
        Self {
            rt,
            sender,
            addr: "127.0.0.1:7000".parse().unwrap(),
            handles: BTreeMap::new(),
            dropped_at_conn: BTreeMap::new(),
            sent: 0,
            conns: Vec::new(),
            live: None,
            read_unanswered: Vec::new(),
            reads: Vec::new(),
            answers: BTreeMap::new(),
            answer_seq: 0,
            resolved: BTreeMap::new(),
            refusing: false,
        }
    }

    fn settle(&mut self) {
        self.rt.quiesce();
        simnet::enter(self.rt.ns);
        for ep in simnet::take_outbound() {
            self.conns.push(ep);
            self.live = Some(self.conns.len() - 1);
            self.read_unanswered.clear();
        }
        if let Some(l) = self.live {
            if self.conns[l].closed_by_node() {
                self.live = None;
            }
        }
        // handles that resolved
        let keys: Vec<u8> = self.handles.keys().cloned().collect();
        for k in keys {
            let h = self.handles.get_mut(&k).unwrap();
            match h.try_recv() {
                Ok(bytes) => {
                    self.resolved.insert(k, bytes.to_vec());
                    self.handles.remove(&k);
                }
                Err(tokio::sync::oneshot::error::TryRecvError::Empty) => {}
                Err(tokio::sync::oneshot::error::TryRecvError::Closed) => {
                    self.resolved.insert(k, b"<handle closed without a reply>".to_vec());
                    self.handles.remove(&k);
                }
            }
        }
    }

    fn frames_in_flight(&self) -> bool {
        match self.live {
            Some(l) => self.conns[l].unread() > 0,
            None => false,
        }
    }

    fn enabled(&self) -> Vec<Op> {
        let mut v = Vec::new();
        if self.sent < M {
            v.push(Op::Send);
        }
        if self.frames_in_flight() {
            v.push(Op::Read);
        }
        if !self.read_unanswered.is_empty() {
            v.push(Op::Answer);
        }
        if self.live.is_some() {
            v.push(Op::Cut);
        }
        if self.refusing {
            v.push(Op::Accept);
        } else {
            v.push(Op::Refuse);
        }
        if self.live.is_none() && self.sent > 0 {
            v.push(Op::Timer);
        }
        for k in self.handles.keys() {
            v.push(Op::Drop(*k));
        }
        v
    }

    fn apply(&mut self, op: Op) {
        simnet::enter(self.rt.ns);
        match op {
            Op::Send => {
                let k = self.sent;
                self.sent += 1;
                let data = Bytes::from(vec![b'm', k]);
                let addr = self.addr;
                let sender = &mut self.sender;
                let h = self.rt.block_on(async { sender.send(addr, data).await });
                self.handles.insert(k, h);
            }
            Op::Read => {
                if let Some(l) = self.live {
                    if let Some(f) = self.conns[l].read_frame() {
                        let k = if f.len() == 2 && f[0] == b'm' { f[1] } else { 255 };
                        self.reads.push((k, l as u64));
                        self.read_unanswered.push((k, l as u64));
                    }
                }
            }
            Op::Answer => {
                if let Some(l) = self.live {
                    if !self.read_unanswered.is_empty() {
                        let (k, _) = self.read_unanswered.remove(0);
                        self.answer_seq += 1;
                        let ans = format!("ack:{}:{}", k, self.answer_seq).into_bytes();
                        self.answers.entry(k).or_default().insert(ans.clone());
                        self.conns[l].write_frame(&ans);
                    }
                }
            }
            Op::Cut => {
                if let Some(l) = self.live {
                    self.conns[l].close();
                    self.live = None;
                    self.read_unanswered.clear();
                }
            }
            Op::Refuse => {
                simnet::set_refuse_all(true);
                self.refusing = true;
            }
            Op::Accept => {
                simnet::set_refuse_all(false);
                self.refusing = false;
            }
            Op::Timer => {
                self.rt.advance(61_000);
            }
            Op::Drop(k) => {
                if self.handles.remove(&k).is_some() {
                    self.dropped_at_conn.insert(k, self.conns.len() as u64);
                }
            }
        }
        self.settle();
    }

    /// Default environment until nothing moves any more.
    fn stabilise(&mut self) {
        simnet::enter(self.rt.ns);
        simnet::set_refuse_all(false);
        self.refusing = false;
        for _ in 0..200 {
            self.settle();
            if self.frames_in_flight() {
                self.apply(Op::Read);
                continue;
            }
            if !self.read_unanswered.is_empty() {
                self.apply(Op::Answer);
                continue;
            }
            if self.handles.is_empty() {
                break;
            }
            // something is still owed: let the back-off expire
            self.rt.advance(61_000);
        }
        self.settle();
    }

    fn check(&self) -> Vec<(String, String)> {
        let mut bad = Vec::new();
        // (i) every message whose handle was kept was read at least once, and its handle resolved
        for k in 0..self.sent {
            let kept = !self.dropped_at_conn.contains_key(&k);
            let read = self.reads.iter().any(|(m, _)| *m == k);
            if kept && !read {
                bad.push(("not-delivered".to_string(), format!("message {} was never read by the peer although its handle was kept", k)));
            }
            if kept && !self.resolved.contains_key(&k) {
                bad.push(("handle-unresolved".to_string(), format!("handle of message {} never resolved although the peer answered everything it read", k)));
            }
        }
        // (ii) first reads in hand-over order
        let mut firsts: Vec<u8> = Vec::new();
        for (m, _) in &self.reads {
            if !firsts.contains(m) {
                firsts.push(*m);
            }
        }
        let mut sorted = firsts.clone();
        sorted.sort();
        if firsts != sorted {
            bad.push(("out-of-order".to_string(), format!("first deliveries happened in order {:?}, hand-over order is {:?}", firsts, sorted)));
        }
        if self.reads.iter().any(|(m, _)| *m == 255) {
            bad.push(("garbled-frame".to_string(), "the peer read a frame that is none of the messages handed over".to_string()));
        }
        // (iii) a handle resolves only with the peer's reply to that very message
        for (k, v) in &self.resolved {
            let ok = self.answers.get(k).map_or(false, |a| a.contains(v));
            if !ok {
                bad.push(("wrong-ack-pairing".to_string(), format!("handle of message {} resolved with {:?}, which is not an answer the peer gave to that message (answers: {:?})", k, String::from_utf8_lossy(v), self.answers.get(k).map(|a| a.iter().map(|x| String::from_utf8_lossy(x).to_string()).collect::<Vec<_>>()))));
            }
        }
        // (iv) no retransmission of a cancelled message on a connection established after the drop
        for (k, at) in &self.dropped_at_conn {
            if let Some((_, c)) = self.reads.iter().find(|(m, c)| m == k && *c >= *at) {
                bad.push(("retransmit-after-cancel".to_string(), format!("message {} was retransmitted on connection #{} established after its handle was dropped", k, c)));
            }
        }
        bad
    }
}

fn run(seq: &[Op]) -> (Vec<Op>, Vec<(String, String)>, String) {
    let mut e = Exec::new();
    for op in seq {
        e.apply(*op);
    }
    let enabled = e.enabled();
    e.stabilise();
    let bad = e.check();
    let obs = format!("{:?}|{:?}", e.reads, e.resolved.keys().collect::<Vec<_>>());
    (enabled, bad, obs)
}

pub fn c14(tier: Tier) -> i32 {
    let mut rep = Report::new("C14", tier, "model_checking");
    let max_depth = tier.pick(10usize, 13usize);
    let max_dev = tier.pick(2u32, 3u32);
    // breadth-first over sequences; each sequence is executed from scratch on a fresh real sender
    let execs = AtomicU64::new(0);
    let steps = AtomicU64::new(0);
    let findings: Mutex<BTreeMap<String, (Vec<Op>, String)>> = Mutex::new(BTreeMap::new());
    let observations: Mutex<BTreeSet<String>> = Mutex::new(BTreeSet::new());
    let mut frontier: Vec<Vec<Op>> = vec![vec![]];
    let mut levels = Vec::new();
    for depth in 0..=max_depth {
        levels.push(frontier.len());
        let next: Mutex<Vec<Vec<Op>>> = Mutex::new(Vec::new());
        let idx = std::sync::atomic::AtomicUsize::new(0);
        std::thread::scope(|sc| {
            for _ in 0..ncpu() {
                sc.spawn(|| loop {
                    let i = idx.fetch_add(1, Ordering::Relaxed);
                    if i >= frontier.len() {
                        break;
                    }
                    let seq = &frontier[i];
                    let (enabled, bad, obs) = run(seq);
                    execs.fetch_add(1, Ordering::Relaxed);
                    steps.fetch_add(seq.len() as u64, Ordering::Relaxed);
                    observations.lock().unwrap().insert(obs);
                    for (sig, what) in bad {
                        let mut f = findings.lock().unwrap();
                        let better = f.get(&sig).map_or(true, |(s, _)| seq.len() < s.len());
                        if better {
                            f.insert(sig, (seq.clone(), what));
                        }
                    }
                    if depth < max_depth {
                        let dev: u32 = seq.iter().map(deviation).sum();
                        let mut out = Vec::new();
                        for op in enabled {
                            if dev + deviation(&op) > max_dev {
                                continue;
                            }
                            // Accept right after Refuse with nothing in between is a no-op pair
                            if op == Op::Accept && seq.last() == Some(&Op::Refuse) {
                                continue;
                            }
                            let mut s = seq.clone();
                            s.push(op);
                            out.push(s);
                        }
                        next.lock().unwrap().extend(out);
                    }
                });
            }
        });
        frontier = next.into_inner().unwrap();
        frontier.sort();
        if frontier.is_empty() {
            break;
        }
    }
    for (sig, (seq, what)) in findings.lock().unwrap().iter() {
        rep.violation(
            format!("sender:{}", sig),
            format!("[after {:?} + stabilisation] {}", seq, what),
            json!({"engine":"seq-sender","ops":seq.iter().map(|o| format!("{:?}", o)).collect::<Vec<_>>()}),
        );
    }
    let e = execs.load(Ordering::Relaxed);
    println!("  sender: executions={} (levels {:?}) operations={} distinct observations={}", e, levels, steps.load(Ordering::Relaxed), observations.lock().unwrap().len());
    rep.set("states", json!(e));
    rep.set("transitions", json!(steps.load(Ordering::Relaxed)));
    rep.set("traces_validated_against_impl", json!(e));
    rep.set("distinct_observations", json!(observations.lock().unwrap().len()));
    rep.set("levels", json!(levels));
    rep.set("exhaustive", json!(true));
    rep.set("bounds", json!({"messages":M,"max_depth":max_depth,"max_deviations(cut/refuse/drop)":max_dev,"alphabet":"send, peer reads one frame, peer answers oldest read frame, cut, refuse/accept connects, back-off timer, drop handle k"}));
    rep.sample(json!({"ops": frontier.get(frontier.len() / 2).map(|s| s.iter().map(|o| format!("{:?}", o)).collect::<Vec<_>>())}));
    rep.sample(json!({"observation": observations.lock().unwrap().iter().last().cloned()}));
    rep.assume("the peer answers frames in the order it read them (FIFO), as the repository's receivers do; one destination address; payloads are distinct per message");
    rep.set("explanation", json!("states = operation sequences executed from scratch on a fresh real ReliableSender over the in-memory transport (stateless exploration, every prefix is itself executed and checked after a stabilisation phase); transitions = operations executed"));
    rep.finish()
}

pub fn replay(v: &serde_json::Value) -> i32 {
    let mut seq = Vec::new();
    for o in v["replay"]["ops"].as_array().cloned().unwrap_or_default() {
        let o = o.as_str().unwrap_or("").to_string();
        let op = match o.as_str() {
            "Send" => Op::Send,
            "Read" => Op::Read,
            "Answer" => Op::Answer,
            "Cut" => Op::Cut,
            "Refuse" => Op::Refuse,
            "Accept" => Op::Accept,
            "Timer" => Op::Timer,
            x if x.starts_with("Drop(") => Op::Drop(x[5..x.len() - 1].parse().unwrap_or(0)),
            _ => continue,
        };
        seq.push(op);
    }
    let (_, bad, obs) = run(&seq);
    println!("ops: {:?}\nobserved (reads as (message, connection); resolved handles): {}", seq, obs);
    for (sig, what) in &bad {
        println!("[{}] {}", sig, what);
    }
    if bad.is_empty() {
        println!("replay did not reproduce a violation of C14");
        0
    } else {
        1
    }
}
