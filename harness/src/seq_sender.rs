// C14: bounded exhaustive exploration of the real ReliableSender (+ its Connection task) with
// the harness as the peer and as the network: every interleaving of hand-overs, peer reads, peer
// answers, cancellations, connection cuts and refused connects up to a depth and deviation bound,
// each followed by a stabilisation phase, against a reference reliable channel.
use crate::driver::Rt;
use crate::util::{ncpu, Report, Tier};
use bytes::Bytes;
use network::simnet::{self, Endpoint};
use network::{CancelHandler, ReliableSender};
use serde_json::json;
use std::collections::{BTreeMap, BTreeSet};
use std::net::SocketAddr;
use std::sync::atomic::{AtomicU64, Ordering};
use std::sync::Mutex;

#[derive(Clone, Copy, Debug, PartialEq, Eq, Hash, PartialOrd, Ord)]
enum Op {
    Send,        // hand over the next message
    Read,        // peer reads the oldest frame in flight on the live connection
    Answer,      // peer answers the oldest frame it has read and not answered
    Cut,         // peer closes the live connection (unread frames and unanswered reads are lost)
    Refuse,      // connects are refused from now on
    Accept,      // connects are accepted again
    Timer,       // let the reconnect back-off expire
    Drop(u8),    // the caller drops handle k
}

fn deviation(op: &Op) -> u32 {
    match op {
        Op::Cut | Op::Refuse | Op::Drop(_) => 1,
        _ => 0,
    }
}

struct Exec {
    rt: Rt,
    sender: ReliableSender,
    addr: SocketAddr,
    handles: BTreeMap<u8, CancelHandler>,
    dropped_at_conn: BTreeMap<u8, u64>, // message -> number of connections established when dropped
    sent: u8,
    conns: Vec<Endpoint>,
    live: Option<usize>,
    read_unanswered: Vec<(u8, u64)>, // (message, conn) read on the live connection, oldest first
    reads: Vec<(u8, u64)>,           // every read: (message, connection index)
    answers: BTreeMap<u8, BTreeSet<Vec<u8>>>, // message -> answers the peer gave to it
    answer_seq: u64,
    resolved: BTreeMap<u8, Vec<u8>>,
    refusing: bool,
}

const M: u8 = 3;

impl Exec {
    fn new() -> Self {
        let rt = Rt::new();
        let sender = rt.block_on(async { ReliableSender::new() });
        Self {
            rt,
            sender,
            addr: "127.0.0.1:7000".parse().unwrap(),
            handles: BTreeMap::new(),
            dropped_at_conn: BTreeMap::new(),
            sent: 0,
            conns: Vec::new(),
            live: None,
            read_unanswered: Vec::new(),
            reads: Vec::new(),
            answers: BTreeMap::new(),
            answer_seq: 0,
            resolved: BTreeMap::new(),
            refusing: false,
        }
    }

    fn settle(&mut self) {
        self.rt.quiesce();
        simnet::enter(self.rt.ns);
        for ep in simnet::take_outbound() {
            self.conns.push(ep);
            self.live = Some(self.conns.len() - 1);
            self.read_unanswered.clear();
        }
        if let Some(l) = self.live {
            if self.conns[l].closed_by_node() {
                self.live = None;
            }
        }
        // handles that resolved
        let keys: Vec<u8> = self.handles.keys().cloned().collect();
        for k in keys {
            let h = self.handles.get_mut(&k).unwrap();
            match h.try_recv() {
                Ok(bytes) => {
                    self.resolved.insert(k, bytes.to_vec());
                    self.handles.remove(&k);
                }
                Err(tokio::sync::oneshot::error::TryRecvError::Empty) => {}
                Err(tokio::sync::oneshot::error::TryRecvError::Closed) => {
                    self.resolved.insert(k, b"<handle closed without a reply>".to_vec());
                    self.handles.remove(&k);
                }
            }
        }
    }

    fn frames_in_flight(&self) -> bool {
        match self.live {
            Some(l) => self.conns[l].unread() > 0,
            None => false,
        }
    }

    fn enabled(&self) -> Vec<Op> {
        let mut v = Vec::new();
        if self.sent < M {
            v.push(Op::Send);
        }
        if self.frames_in_flight() {
            v.push(Op::Read);
        }
        if !self.read_unanswered.is_empty() {
            v.push(Op::Answer);
        }
        if self.live.is_some() {
            v.push(Op::Cut);
        }
        if self.refusing {
            v.push(Op::Accept);
        } else {
            v.push(Op::Refuse);
        }
        if self.live.is_none() && self.sent > 0 {
            v.push(Op::Timer);
        }
        for k in self.handles.keys() {
            v.push(Op::Drop(*k));
        }
        v
    }

    fn apply(&mut self, op: Op) {
        simnet::enter(self.rt.ns);
        match op {
            Op::Send => {
                let k = self.sent;
                self.sent += 1;
                let data = Bytes::from(vec![b'm', k]);
                let addr = self.addr;
                let sender = &mut self.sender;
                let h = self.rt.block_on(async { sender.send(addr, data).await });
                self.handles.insert(k, h);
            }
            Op::Read => {
                if let Some(l) = self.live {
                    if let Some(f) = self.conns[l].read_frame() {
                        let k = if f.len() == 2 && f[0] == b'm' { f[1] } else { 255 };
                        self.reads.push((k, l as u64));
                        self.read_unanswered.push((k, l as u64));
                    }
                }
            }
            Op::Answer => {
                if let Some(l) = self.live {
                    if !self.read_unanswered.is_empty() {
                        let (k, _) = self.read_unanswered.remove(0);
                        self.answer_seq += 1;
                        let ans = format!("ack:{}:{}", k, self.answer_seq).into_bytes();
                        self.answers.entry(k).or_default().insert(ans.clone());
                        self.conns[l].write_frame(&ans);
                    }
                }
            }
            Op::Cut => {
                if let Some(l) = self.live {
                    self.conns[l].close();
                    self.live = None;
                    self.read_unanswered.clear();
                }
            }
            Op::Refuse => {
                simnet::set_refuse_all(true);
                self.refusing = true;
            }
            Op::Accept => {
                simnet::set_refuse_all(false);
                self.refusing = false;
            }
            Op::Timer => {
                self.rt.advance(61_000);
            }
            Op::Drop(k) => {
                if self.handles.remove(&k).is_some() {
                    self.dropped_at_conn.insert(k, self.conns.len() as u64);
                }
            }
        }
        self.settle();
    }

    /// Default environment until nothing moves any more.
    fn stabilise(&mut self) {
        simnet::enter(self.rt.ns);
        simnet::set_refuse_all(false);
        self.refusing = false;
        for _ in 0..200 {
            self.settle();
            if self.frames_in_flight() {
                self.apply(Op::Read);
                continue;
            }
            if !self.read_unanswered.is_empty() {
                self.apply(Op::Answer);
                continue;
            }
            if self.handles.is_empty() {
                break;
            }
            // something is still owed: let the back-off expire
            self.rt.advance(61_000);
        }
        self.settle();
    }

    fn check(&self) -> Vec<(String, String)> {
        let mut bad = Vec::new();
        // (i) every message whose handle was kept was read at least once, and its handle resolved
        for k in 0..self.sent {
            let kept = !self.dropped_at_conn.contains_key(&k);
            let read = self.reads.iter().any(|(m, _)| *m == k);
            if kept && !read {
                bad.push(("not-delivered".to_string(), format!("message {} was never read by the peer although its handle was kept", k)));
            }
            if kept && !self.resolved.contains_key(&k) {
                bad.push(("handle-unresolved".to_string(), format!("handle of message {} never resolved although the peer answered everything it read", k)));
            }
        }
        // (ii) first reads in hand-over order
        let mut firsts: Vec<u8> = Vec::new();
        for (m, _) in &self.reads {
            if !firsts.contains(m) {
                firsts.push(*m);
            }
        }
        let mut sorted = firsts.clone();
        sorted.sort();
        if firsts != sorted {
            bad.push(("out-of-order".to_string(), format!("first deliveries happened in order {:?}, hand-over order is {:?}", firsts, sorted)));
        }
        if self.reads.iter().any(|(m, _)| *m == 255) {
            bad.push(("garbled-frame".to_string(), "the peer read a frame that is none of the messages handed over".to_string()));
        }
        // (iii) a handle resolves only with the peer's reply to that very message
        for (k, v) in &self.resolved {
            let ok = self.answers.get(k).map_or(false, |a| a.contains(v));
            if !ok {
                bad.push(("wrong-ack-pairing".to_string(), format!("handle of message {} resolved with {:?}, which is not an answer the peer gave to that message (answers: {:?})", k, String::from_utf8_lossy(v), self.answers.get(k).map(|a| a.iter().map(|x| String::from_utf8_lossy(x).to_string()).collect::<Vec<_>>()))));
            }
        }
        // (iv) no retransmission of a cancelled message on a connection established after the drop
        for (k, at) in &self.dropped_at_conn {
            if let Some((_, c)) = self.reads.iter().find(|(m, c)| m == k && *c >= *at) {
                bad.push(("retransmit-after-cancel".to_string(), format!("message {} was retransmitted on connection #{} established after its handle was dropped", k, c)));
            }
        }
        bad
    }
}

fn run(seq: &[Op]) -> (Vec<Op>, Vec<(String, String)>, String) {
    let mut e = Exec::new();
    for op in seq {
        e.apply(*op);
    }
    let enabled = e.enabled();
    e.stabilise();
    let bad = e.check();
    let obs = format!("{:?}|{:?}", e.reads, e.resolved.keys().collect::<Vec<_>>());
    (enabled, bad, obs)
}

pub fn c14(tier: Tier) -> i32 {
    let mut rep = Report::new("C14", tier, "model_checking");
    let max_depth = tier.pick(10usize, 13usize);
    let max_dev = tier.pick(2u32, 3u32);
    // breadth-first over sequences; each sequence is executed from scratch on a fresh real sender
    let execs = AtomicU64::new(0);
    let steps = AtomicU64::new(0);
    let findings: Mutex<BTreeMap<String, (Vec<Op>, String)>> = Mutex::new(BTreeMap::new());
    let observations: Mutex<BTreeSet<String>> = Mutex::new(BTreeSet::new());
    let mut frontier: Vec<Vec<Op>> = vec![vec![]];
    let mut levels = Vec::new();
    for depth in 0..=max_depth {
        levels.push(frontier.len());
        let next: Mutex<Vec<Vec<Op>>> = Mutex::new(Vec::new());
        let idx = std::sync::atomic::AtomicUsize::new(0);
        std::thread::scope(|sc| {
            for _ in 0..ncpu() {
                sc.spawn(|| loop {
                    let i = idx.fetch_add(1, Ordering::Relaxed);
                    if i >= frontier.len() {
                        break;
                    }
                    let seq = &frontier[i];
                    let (enabled, bad, obs) = run(seq);
                    execs.fetch_add(1, Ordering::Relaxed);
                    steps.fetch_add(seq.len() as u64, Ordering::Relaxed);
                    observations.lock().unwrap().insert(obs);
                    for (sig, what) in bad {
                        let mut f = findings.lock().unwrap();
                        let better = f.get(&sig).map_or(true, |(s, _)| seq.len() < s.len());
                        if better {
                            f.insert(sig, (seq.clone(), what));
                        }
                    }
                    if depth < max_depth {
                        let dev: u32 = seq.iter().map(deviation).sum();
                        let mut out = Vec::new();
                        for op in enabled {
                            if dev + deviation(&op) > max_dev {
                                continue;
                            }
                            // Accept right after Refuse with nothing in between is a no-op pair
                            if op == Op::Accept && seq.last() == Some(&Op::Refuse) {
                                continue;
                            }
                            let mut s = seq.clone();
                            s.push(op);
                            out.push(s);
                        }
                        next.lock().unwrap().extend(out);
                    }
                });
            }
        });
        frontier = next.into_inner().unwrap();
        frontier.sort();
        if frontier.is_empty() {
            break;
        }
    }
    for (sig, (seq, what)) in findings.lock().unwrap().iter() {
        rep.violation(
            format!("sender:{}", sig),
            format!("[after {:?} + stabilisation] {}", seq, what),
            json!({"engine":"seq-sender","ops":seq.iter().map(|o| format!("{:?}", o)).collect::<Vec<_>>()}),
        );
    }
    real_receiver_pass(&mut rep, tier);
    two_peer_pass(&mut rep, tier);
    let e = execs.load(Ordering::Relaxed);
    println!("  sender: executions={} (levels {:?}) operations={} distinct observations={}", e, levels, steps.load(Ordering::Relaxed), observations.lock().unwrap().len());
    rep.add("states", e);
    rep.add("transitions", steps.load(Ordering::Relaxed));
    rep.add("traces_validated_against_impl", e);
    rep.set("distinct_observations", json!(observations.lock().unwrap().len()));
    rep.set("levels", json!(levels));
    rep.set("exhaustive", json!(true));
    rep.set("bounds", json!({"messages":M,"max_depth":max_depth,"max_deviations(cut/refuse/drop)":max_dev,"alphabet":"send, peer reads one frame, peer answers oldest read frame, cut, refuse/accept connects, back-off timer, drop handle k"}));
    rep.sample(json!({"ops": frontier.get(frontier.len() / 2).map(|s| s.iter().map(|o| format!("{:?}", o)).collect::<Vec<_>>())}));
    rep.sample(json!({"observation": observations.lock().unwrap().iter().last().cloned()}));
    rep.assume("the peer answers frames in the order it read them (FIFO), as the repository's receivers do; one destination address; payloads are distinct per message");
    rep.set("explanation", json!("states = operation sequences executed from scratch on a fresh real ReliableSender over the in-memory transport (stateless exploration, every prefix is itself executed and checked after a stabilisation phase); transitions = operations executed"));
    rep.finish()
}

pub fn replay(v: &serde_json::Value) -> i32 {
    if let Some(ops2) = v["replay"]["ops2"].as_array() {
        let mut seq2 = Vec::new();
        for o in ops2 {
            let op = match o.as_str().unwrap_or("") {
                "Send" => Op2::Send,
                "Relay" => Op2::Relay,
                "Cut" => Op2::Cut,
                "Refuse" => Op2::Refuse,
                "Accept" => Op2::Accept,
                "Timer" => Op2::Timer,
                "FailNext" => Op2::FailNext,
                x if x.starts_with("Drop(") => Op2::Drop(x[5..x.len() - 1].parse().unwrap_or(0)),
                _ => continue,
            };
            seq2.push(op);
        }
        let (bad, obs) = run2(&seq2);
        println!("ops (real Receiver as peer): {:?}\nfirst deliveries seen by the handler: {}", seq2, obs);
        for (sig, what) in &bad {
            println!("[{}] {}", sig, what);
        }
        return if bad.is_empty() {
            println!("replay did not reproduce a violation of C14");
            0
        } else {
            1
        };
    }
    let mut seq = Vec::new();
    for o in v["replay"]["ops"].as_array().cloned().unwrap_or_default() {
        let o = o.as_str().unwrap_or("").to_string();
        let op = match o.as_str() {
            "Send" => Op::Send,
            "Read" => Op::Read,
            "Answer" => Op::Answer,
            "Cut" => Op::Cut,
            "Refuse" => Op::Refuse,
            "Accept" => Op::Accept,
            "Timer" => Op::Timer,
            x if x.starts_with("Drop(") => Op::Drop(x[5..x.len() - 1].parse().unwrap_or(0)),
            _ => continue,
        };
        seq.push(op);
    }
    let (_, bad, obs) = run(&seq);
    println!("ops: {:?}\nobserved (reads as (message, connection); resolved handles): {}", seq, obs);
    for (sig, what) in &bad {
        println!("[{}] {}", sig, what);
    }
    if bad.is_empty() {
        println!("replay did not reproduce a violation of C14");
        0
    } else {
        1
    }
}

// ---------------------------------------------------------------------------------------------
// Second pass: the peer is the repository's real `Receiver` (with a handler that records every
// message and answers `ack:<payload>`); the harness is only the wire between the two.
// ---------------------------------------------------------------------------------------------

#[derive(Clone)]
struct RecHandler {
    log: std::sync::Arc<Mutex<Vec<Vec<u8>>>>,
    /// one-shot: the handler fails on the next message, before recording or answering it
    fail_next: std::sync::Arc<std::sync::atomic::AtomicBool>,
}

#[async_trait::async_trait]
impl network::MessageHandler for RecHandler {
    async fn dispatch(&self, writer: &mut network::Writer, message: Bytes) -> Result<(), Box<dyn std::error::Error>> {
        use futures::SinkExt as _;
        if self.fail_next.swap(false, std::sync::atomic::Ordering::SeqCst) {
            return Err("handler failure".into());
        }
        self.log.lock().unwrap().push(message.to_vec());
        let mut ans = b"ack:".to_vec();
        ans.extend_from_slice(&message);
        let _ = writer.send(Bytes::from(ans)).await;
        Ok(())
    }
}

#[derive(Clone, Copy, Debug, PartialEq, Eq, PartialOrd, Ord)]
enum Op2 {
    Send,
    Cut,      // the wire breaks: both ends see the connection closed; bytes in flight are lost
    Relay,    // the wire moves everything currently in flight, both directions
    Refuse,
    Accept,
    Timer,
    Drop(u8),
    /// the peer's handler fails on the next message it is given (the receiver must drop the
    /// connection, so that the message is sent again and no reply gets paired with the wrong handle)
    FailNext,
}

fn run2(seq: &[Op2]) -> (Vec<(String, String)>, String) {
    let rt = Rt::new();
    let addr: SocketAddr = "127.0.0.1:7100".parse().unwrap();
    let log = std::sync::Arc::new(Mutex::new(Vec::new()));
    let fail_next = std::sync::Arc::new(std::sync::atomic::AtomicBool::new(false));
    let mut sender = rt.block_on(async {
        network::Receiver::spawn(addr, RecHandler { log: log.clone(), fail_next: fail_next.clone() });
        ReliableSender::new()
    });
    rt.quiesce();
    let mut handles: BTreeMap<u8, CancelHandler> = BTreeMap::new();
    let mut resolved: BTreeMap<u8, Vec<u8>> = BTreeMap::new();
    let mut dropped: BTreeSet<u8> = BTreeSet::new();
    let mut sent = 0u8;
    // wire: (sender-side endpoint, receiver-side endpoint)
    let mut wire: Option<(Endpoint, Endpoint)> = None;
    let mut refusing = false;
    let mut relay = |rt: &Rt, wire: &mut Option<(Endpoint, Endpoint)>, refusing: bool, move_bytes: bool| {
        rt.quiesce();
        simnet::enter(rt.ns);
        for ep in simnet::take_outbound() {
            if refusing {
                ep.close();
                continue;
            }
            if let Some(peer) = simnet::dial(7100) {
                *wire = Some((ep, peer));
            }
        }
        if move_bytes {
            for _ in 0..4 {
                if let Some((a, b)) = wire.as_ref() {
                    for f in a.read_frames() {
                        b.write_frame(&f);
                    }
                    rt.quiesce();
                    for f in b.read_frames() {
                        a.write_frame(&f);
                    }
                    rt.quiesce();
                    if a.closed_by_node() {
                        b.close();
                    }
                    if b.closed_by_node() {
                        a.close();
                    }
                }
            }
        }
    };
    let settle = |handles: &mut BTreeMap<u8, CancelHandler>, resolved: &mut BTreeMap<u8, Vec<u8>>| {
        let keys: Vec<u8> = handles.keys().cloned().collect();
        for k in keys {
            if let Ok(b) = handles.get_mut(&k).unwrap().try_recv() {
                resolved.insert(k, b.to_vec());
                handles.remove(&k);
            }
        }
    };
    for op in seq {
        simnet::enter(rt.ns);
        match op {
            Op2::Send => {
                if sent < M {
                    let k = sent;
                    sent += 1;
                    let h = rt.block_on(async { sender.send(addr, Bytes::from(vec![b'm', k])).await });
                    handles.insert(k, h);
                }
                relay(&rt, &mut wire, refusing, false);
            }
            Op2::Relay => relay(&rt, &mut wire, refusing, true),
            Op2::Cut => {
                if let Some((a, b)) = wire.take() {
                    a.close();
                    b.close();
                }
                relay(&rt, &mut wire, refusing, false);
            }
            Op2::Refuse => {
                simnet::set_refuse_all(true);
                refusing = true;
            }
            Op2::Accept => {
                simnet::set_refuse_all(false);
                refusing = false;
            }
            Op2::Timer => {
                rt.advance(61_000);
                relay(&rt, &mut wire, refusing, false);
            }
            Op2::Drop(k) => {
                if handles.remove(k).is_some() {
                    dropped.insert(*k);
                }
                relay(&rt, &mut wire, refusing, false);
            }
            Op2::FailNext => fail_next.store(true, std::sync::atomic::Ordering::SeqCst),
        }
        settle(&mut handles, &mut resolved);
    }
    // stabilise (an armed but unused handler failure is disarmed: the fault-free suffix starts here)
    simnet::enter(rt.ns);
    simnet::set_refuse_all(false);
    fail_next.store(false, std::sync::atomic::Ordering::SeqCst);
    for _ in 0..40 {
        relay(&rt, &mut wire, false, true);
        settle(&mut handles, &mut resolved);
        if handles.is_empty() {
            break;
        }
        rt.advance(61_000);
    }
    let got: Vec<Vec<u8>> = log.lock().unwrap().clone();
    let mut bad = Vec::new();
    let mut firsts: Vec<u8> = Vec::new();
    for m in &got {
        if m.len() == 2 && m[0] == b'm' {
            if !firsts.contains(&m[1]) {
                firsts.push(m[1]);
            }
        } else {
            bad.push(("garbled".to_string(), format!("the real receiver delivered bytes that are no message: {:?}", m)));
        }
    }
    let mut sorted = firsts.clone();
    sorted.sort();
    if firsts != sorted {
        bad.push(("out-of-order".to_string(), format!("the real receiver's handler saw first deliveries in order {:?}", firsts)));
    }
    for k in 0..sent {
        if !dropped.contains(&k) {
            if !firsts.contains(&k) {
                bad.push(("not-delivered".to_string(), format!("message {} never reached the real receiver's handler although its handle was kept", k)));
            }
            match resolved.get(&k) {
                Some(v) if *v == [b"ack:".to_vec(), vec![b'm', k]].concat() => {}
                Some(v) => bad.push(("wrong-ack-pairing".to_string(), format!("handle of message {} resolved with {:?}", k, String::from_utf8_lossy(v)))),
                None => bad.push(("handle-unresolved".to_string(), format!("handle of message {} never resolved", k))),
            }
        }
    }
    for p in rt.panics() {
        bad.push(("panic".to_string(), p));
    }
    drop(sender);
    (bad, format!("{:?}", firsts))
}

pub fn real_receiver_pass(rep: &mut Report, tier: Tier) {
    let alphabet = [Op2::Send, Op2::Relay, Op2::Cut, Op2::Refuse, Op2::Accept, Op2::Timer, Op2::Drop(0), Op2::Drop(1), Op2::FailNext];
    let maxlen = tier.pick(6usize, 7usize);
    let mut seqs: Vec<Vec<Op2>> = Vec::new();
    fn rec(len: usize, a: &[Op2], cur: &mut Vec<Op2>, out: &mut Vec<Vec<Op2>>) {
        if !cur.is_empty() {
            out.push(cur.clone());
        }
        if cur.len() == len {
            return;
        }
        for e in a {
            let faults = cur.iter().filter(|o| matches!(o, Op2::Cut | Op2::Refuse | Op2::Drop(_) | Op2::FailNext)).count();
            if matches!(e, Op2::Cut | Op2::Refuse | Op2::Drop(_) | Op2::FailNext) && faults >= 2 {
                continue;
            }
            if *e == Op2::FailNext && cur.last() == Some(&Op2::FailNext) {
                continue;
            }
            if *e == Op2::Accept && !cur.contains(&Op2::Refuse) {
                continue;
            }
            if *e == Op2::Send && cur.iter().filter(|o| **o == Op2::Send).count() >= M as usize {
                continue;
            }
            if let Op2::Drop(k) = e {
                if cur.iter().filter(|o| **o == Op2::Send).count() <= *k as usize || cur.contains(e) {
                    continue;
                }
            }
            if cur.last() == Some(e) && matches!(e, Op2::Relay | Op2::Timer | Op2::Refuse | Op2::Accept) {
                continue;
            }
            cur.push(*e);
            rec(len, a, cur, out);
            cur.pop();
        }
    }
    rec(maxlen, &alphabet, &mut Vec::new(), &mut seqs);
    let results = crate::util::par_map(seqs.len(), ncpu(), |i| run2(&seqs[i]));
    let mut best: BTreeMap<String, (usize, String)> = BTreeMap::new();
    let mut obs = BTreeSet::new();
    let mut steps = 0u64;
    for (i, (bad, o)) in results.into_iter().enumerate() {
        obs.insert(o);
        steps += seqs[i].len() as u64;
        for (sig, what) in bad {
            if best.get(&sig).map_or(true, |b| seqs[i].len() < seqs[b.0].len()) {
                best.insert(sig, (i, what));
            }
        }
    }
    for (sig, (i, what)) in &best {
        rep.violation(format!("sender+receiver:{}", sig), format!("[real Receiver as peer, ops {:?}] {}", seqs[*i], what), json!({"engine":"seq-sender","pass":"real-receiver","ops2":seqs[*i].iter().map(|o| format!("{:?}", o)).collect::<Vec<_>>()}));
    }
    println!("  sender + real receiver: executions={} operations={} distinct delivery orders={}", seqs.len(), steps, obs.len());
    rep.add("states", seqs.len() as u64);
    rep.add("transitions", steps);
    rep.add("traces_validated_against_impl", seqs.len() as u64);
    rep.set("real_receiver_pass", json!({"executions": seqs.len(), "max_length": maxlen, "alphabet": "send, wire relays everything in flight, wire cut, refuse/accept connects, back-off timer, drop handle 0/1, peer handler fails on its next message; at most 2 faults"}));
}

// ---------------------------------------------------------------------------------------------
// Third pass: broadcast to two peers; handles are returned in the order of the addresses and each
// must resolve with the reply of *its* peer to *its* message.
// ---------------------------------------------------------------------------------------------

#[derive(Clone, Copy, Debug, PartialEq, Eq, PartialOrd, Ord)]
enum Op3 {
    Bcast,
    Serve(u8), // peer p reads and answers everything in flight on its live connection
    Cut(u8),
    Timer,
}

fn run3(seq: &[Op3]) -> Vec<(String, String)> {
    let rt = Rt::new();
    let addrs: Vec<SocketAddr> = vec!["127.0.0.1:7201".parse().unwrap(), "127.0.0.1:7202".parse().unwrap()];
    let mut sender = rt.block_on(async { ReliableSender::new() });
    let mut handles: BTreeMap<(u8, u8), CancelHandler> = BTreeMap::new(); // (message, peer)
    let mut resolved: BTreeMap<(u8, u8), Vec<u8>> = BTreeMap::new();
    let mut conns: Vec<Vec<Endpoint>> = vec![Vec::new(), Vec::new()];
    let mut sent = 0u8;
    let mut poll = |rt: &Rt, conns: &mut Vec<Vec<Endpoint>>| {
        rt.quiesce();
        simnet::enter(rt.ns);
        for ep in simnet::take_outbound() {
            let p = (ep.addr.port() - 7201) as usize;
            if p < 2 {
                conns[p].push(ep);
            }
        }
    };
    let serve = |rt: &Rt, conns: &Vec<Vec<Endpoint>>, p: usize| {
        if let Some(ep) = conns[p].last() {
            for f in ep.read_frames() {
                let mut ans = format!("ack:{}:", p).into_bytes();
                ans.extend_from_slice(&f);
                ep.write_frame(&ans);
            }
        }
        rt.quiesce();
    };
    for op in seq {
        simnet::enter(rt.ns);
        match op {
            Op3::Bcast => {
                if sent < 2 {
                    let k = sent;
                    sent += 1;
                    let a = addrs.clone();
                    let hs = rt.block_on(async { sender.broadcast(a, Bytes::from(vec![b'm', k])).await });
                    for (p, h) in hs.into_iter().enumerate() {
                        handles.insert((k, p as u8), h);
                    }
                }
            }
            Op3::Serve(p) => {
                poll(&rt, &mut conns);
                serve(&rt, &conns, *p as usize);
            }
            Op3::Cut(p) => {
                poll(&rt, &mut conns);
                if let Some(ep) = conns[*p as usize].last() {
                    ep.close();
                }
            }
            Op3::Timer => rt.advance(61_000),
        }
        poll(&rt, &mut conns);
    }
    for _ in 0..20 {
        poll(&rt, &mut conns);
        serve(&rt, &conns, 0);
        serve(&rt, &conns, 1);
        let keys: Vec<(u8, u8)> = handles.keys().cloned().collect();
        for k in keys {
            if let Ok(b) = handles.get_mut(&k).unwrap().try_recv() {
                resolved.insert(k, b.to_vec());
                handles.remove(&k);
            }
        }
        if handles.is_empty() {
            break;
        }
        rt.advance(61_000);
    }
    let mut bad = Vec::new();
    for k in 0..sent {
        for p in 0..2u8 {
            let want = [format!("ack:{}:", p).into_bytes(), vec![b'm', k]].concat();
            match resolved.get(&(k, p)) {
                Some(v) if *v == want => {}
                Some(v) => bad.push(("broadcast-wrong-handle".to_string(), format!("the handle for message {} to peer {} resolved with {:?}", k, p, String::from_utf8_lossy(v)))),
                None => bad.push(("broadcast-unresolved".to_string(), format!("the handle for message {} to peer {} never resolved", k, p))),
            }
        }
    }
    for p in rt.panics() {
        bad.push(("panic".to_string(), p));
    }
    bad
}

pub fn two_peer_pass(rep: &mut Report, tier: Tier) {
    let alphabet = [Op3::Bcast, Op3::Serve(0), Op3::Serve(1), Op3::Cut(0), Op3::Cut(1), Op3::Timer];
    let maxlen = tier.pick(5usize, 6usize);
    let mut seqs: Vec<Vec<Op3>> = Vec::new();
    fn rec(len: usize, a: &[Op3], cur: &mut Vec<Op3>, out: &mut Vec<Vec<Op3>>) {
        if !cur.is_empty() {
            out.push(cur.clone());
        }
        if cur.len() == len {
            return;
        }
        for e in a {
            if *e == Op3::Bcast && cur.iter().filter(|o| **o == Op3::Bcast).count() >= 2 {
                continue;
            }
            if *e != Op3::Bcast && !cur.contains(&Op3::Bcast) {
                continue;
            }
            cur.push(*e);
            rec(len, a, cur, out);
            cur.pop();
        }
    }
    rec(maxlen, &alphabet, &mut Vec::new(), &mut seqs);
    let results = crate::util::par_map(seqs.len(), ncpu(), |i| run3(&seqs[i]));
    let mut best: BTreeMap<String, (usize, String)> = BTreeMap::new();
    for (i, bad) in results.into_iter().enumerate() {
        for (sig, what) in bad {
            if best.get(&sig).map_or(true, |b| seqs[i].len() < seqs[b.0].len()) {
                best.insert(sig, (i, what));
            }
        }
    }
    for (sig, (i, what)) in &best {
        rep.violation(format!("sender:{}", sig), format!("[broadcast to two peers, ops {:?}] {}", seqs[*i], what), json!({"engine":"seq-sender","pass":"two-peers","ops3":seqs[*i].iter().map(|o| format!("{:?}", o)).collect::<Vec<_>>()}));
    }
    println!("  sender broadcast to two peers: executions={}", seqs.len());
    rep.add("states", seqs.len() as u64);
    rep.add("transitions", seqs.iter().map(|s| s.len() as u64).sum());
    rep.add("traces_validated_against_impl", seqs.len() as u64);
    rep.set("two_peer_pass", json!({"executions": seqs.len(), "max_length": maxlen, "alphabet": "broadcast (2 messages), peer p serves everything in flight, cut p, back-off timer"}));
}
