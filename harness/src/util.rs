// Shared plumbing: evidence files, violation artefacts, known findings, small helpers.
use serde_json::{json, Value};
use std::collections::hash_map::DefaultHasher;
use std::hash::{Hash, Hasher};
use std::io::Write;
use std::time::Instant;

pub const VERIF_DIR: &str = "/verif";

#[derive(Clone, Copy, PartialEq, Eq, Debug)]
pub enum Tier {
    Quick,
    Thorough,
}

impl Tier {
    pub fn name(self) -> &'static str {
        match self {
            Tier::Quick => "quick",
            Tier::Thorough => "thorough",
        }
    }
    pub fn pick<T>(self, quick: T, thorough: T) -> T {
        match self {
            Tier::Quick => quick,
            Tier::Thorough => thorough,
        }
    }
}

pub fn seed() -> u64 {
    std::env::var("VERIF_SEED")
        .ok()
        .and_then(|s| s.parse().ok())
        .unwrap_or(0)
}

pub fn hash64<T: Hash>(t: &T) -> u64 {
    let mut h = DefaultHasher::new();
    t.hash(&mut h);
    h.finish()
}

pub fn hex(bytes: &[u8]) -> String {
    bytes.iter().map(|b| format!("{:02x}", b)).collect()
}

/// One violation found by a check.
#[derive(Clone, Debug)]
pub struct Violation {
    pub property: String,
    /// Canonical signature used to match entries of known_findings.json.
    pub signature: String,
    /// Human-readable one-liner.
    pub what: String,
    /// Everything needed to replay (engine, configuration, event list, expected vs observed).
    pub replay: Value,
}

/// Collected result of a check run for one property.
pub struct Report {
    pub property: String,
    pub tier: Tier,
    pub level: &'static str,
    pub started: Instant,
    pub coverage: serde_json::Map<String, Value>,
    pub assumptions: Vec<String>,
    pub violations: Vec<Violation>,
    pub samples: Vec<Value>,
}

impl Report {
    pub fn new(property: &str, tier: Tier, level: &'static str) -> Self {
        Self {
            property: property.to_string(),
            tier,
            level,
            started: Instant::now(),
            coverage: serde_json::Map::new(),
            assumptions: Vec::new(),
            violations: Vec::new(),
            samples: Vec::new(),
        }
    }

    pub fn set(&mut self, key: &str, v: Value) {
        self.coverage.insert(key.to_string(), v);
    }

    /// Add to an integer counter in coverage.
    pub fn add(&mut self, key: &str, n: u64) {
        let cur = self.coverage.get(key).and_then(|v| v.as_u64()).unwrap_or(0);
        self.coverage.insert(key.to_string(), json!(cur + n));
    }

    pub fn get(&self, key: &str) -> u64 {
        self.coverage.get(key).and_then(|v| v.as_u64()).unwrap_or(0)
    }

    pub fn sample(&mut self, v: Value) {
        if self.samples.len() < 12 {
            self.samples.push(v);
        }
    }

    pub fn assume(&mut self, s: &str) {
        if !self.assumptions.iter().any(|x| x == s) {
            self.assumptions.push(s.to_string());
        }
    }

    pub fn violation(&mut self, signature: String, what: String, replay: Value) {
        // Keep one violation per signature (the first = shortest under BFS / simplest-first order).
        if self.violations.iter().any(|v| v.signature == signature) {
            return;
        }
        self.violations.push(Violation {
            property: self.property.clone(),
            signature,
            what,
            replay,
        });
    }

    /// Write the evidence file, print KNOWN-FINDING / VIOLATION lines, return the exit code.
    pub fn finish(mut self) -> i32 {
        let known = load_known_findings();
        let mut new_violations = Vec::new();
        let mut known_hits = Vec::new();
        for v in &self.violations {
            let hit = known.iter().any(|k| {
                k["status"] == "open" && k["property"] == v.property.as_str() && k["signature"] == v.signature.as_str()
            });
            if hit {
                known_hits.push(v.clone());
            } else {
                new_violations.push(v.clone());
            }
        }
        let wall = self.started.elapsed().as_secs_f64();
        self.coverage
            .insert("samples".to_string(), Value::Array(self.samples.clone()));
        self.coverage.insert(
            "known_findings_reproduced".to_string(),
            json!(known_hits.iter().map(|v| v.signature.clone()).collect::<Vec<_>>()),
        );
        let evidence = json!({
            "property_id": self.property,
            "tier": self.tier.name(),
            "seed": seed(),
            "level": self.level,
            "coverage": Value::Object(self.coverage.clone()),
            "assumptions": self.assumptions,
            "wall_s": wall,
            "violations": new_violations.len(),
        });
        let dir = format!("{}/evidence", VERIF_DIR);
        let _ = std::fs::create_dir_all(&dir);
        let path = format!("{}/{}.json", dir, self.property);
        let mut f = std::fs::File::create(&path).expect("cannot write evidence file");
        f.write_all(serde_json::to_string_pretty(&evidence).unwrap().as_bytes())
            .unwrap();
        f.write_all(b"\n").unwrap();

        for v in &known_hits {
            println!("KNOWN-FINDING: property={} {} [{}]", v.property, v.what, v.signature);
        }
        let mut code = 0;
        for v in &new_violations {
            let rdir = format!("{}/replays", VERIF_DIR);
            let _ = std::fs::create_dir_all(&rdir);
            let rpath = format!("{}/{}-{:016x}.json", rdir, v.property, hash64(&v.signature));
            let body = json!({
                "property": v.property,
                "signature": v.signature,
                "what": v.what,
                "replay": v.replay,
            });
            std::fs::write(&rpath, serde_json::to_string_pretty(&body).unwrap()).unwrap();
            println!("  what: {}", v.what);
            println!("VIOLATION property={} replay={}", v.property, rpath);
            code = 1;
        }
        println!(
            "[{}] {} tier={} wall={:.1}s violations={} known={} evidence={}",
            if code == 0 { "ok" } else { "FAIL" },
            self.property,
            self.tier.name(),
            wall,
            new_violations.len(),
            known_hits.len(),
            path
        );
        code
    }
}

pub fn load_known_findings() -> Vec<Value> {
    let path = format!("{}/known_findings.json", VERIF_DIR);
    match std::fs::read(&path) {
        Ok(data) => {
            let v: Value = serde_json::from_slice(&data).expect("known_findings.json is not JSON");
            v["findings"].as_array().cloned().unwrap_or_default()
        }
        Err(_) => Vec::new(),
    }
}

/// Machinery error: never a verdict.
pub fn machinery_error(msg: &str) -> ! {
    eprintln!("MACHINERY-ERROR: {}", msg);
    println!("MACHINERY-ERROR: {}", msg);
    std::process::exit(2);
}

/// Run `f(i)` for i in 0..n on `threads` OS threads, collecting the results in index order.
pub fn par_map<T: Send, F: Fn(usize) -> T + Sync>(n: usize, threads: usize, f: F) -> Vec<T> {
    use std::sync::atomic::{AtomicUsize, Ordering};
    use std::sync::Mutex;
    let next = AtomicUsize::new(0);
    let out: Mutex<Vec<Option<T>>> = Mutex::new((0..n).map(|_| None).collect());
    std::thread::scope(|s| {
        for _ in 0..threads.max(1).min(n.max(1)) {
            s.spawn(|| loop {
                let i = next.fetch_add(1, Ordering::Relaxed);
                if i >= n {
                    break;
                }
                let r = f(i);
                out.lock().unwrap()[i] = Some(r);
            });
        }
    });
    out.into_inner().unwrap().into_iter().map(|x| x.unwrap()).collect()
}

pub fn ncpu() -> usize {
    if let Some(n) = std::env::var("HSV_THREADS").ok().and_then(|s| s.parse().ok()) {
        return n;
    }
    std::thread::available_parallelism().map(|n| n.get()).unwrap_or(4)
}
