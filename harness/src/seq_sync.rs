// C07 (component level): every bounded sequence of operations on the repository's real block
// `Synchronizer` (consensus/src/synchronizer.rs) over an in-memory store and the in-memory transport,
// against a reference model of "park until the parent is stored, ask the author at once, ask
// everybody else after the retry delay, loop the block back exactly once".
use crate::driver::{mem_store, MemMap, Rt};
use crate::util::{ncpu, par_map, Report, Tier};
use crate::world::{World, CONSENSUS_PORT0};
use consensus::verif::{ConsensusMessage, Synchronizer};
use consensus::{Block, QC};
use crypto::{Digest, Hash as _};
use network::simnet::{self, Endpoint};
use serde_json::{json, Value};
use std::collections::{BTreeMap, BTreeSet};
use tokio::sync::mpsc::{channel, Receiver};

#[derive(Clone, Copy, Debug, PartialEq)]
pub enum Op {
    /// `get_parent_block(blocks[k])` as the core does for a block it is processing
    Park(usize),
    /// blocks[k] is written to the store (the core stored it / the helper's reply was processed)
    Store(usize),
    /// more than the retry delay plus two timer periods pass
    Wait,
}

const RETRY_DELAY: u64 = 1_000;
const TIMER_ACCURACY: u64 = 5_000;

struct Family {
    blocks: Vec<Block>,
    parent: Vec<Option<usize>>, // index of the parent in `blocks` (None: genesis)
    author: Vec<usize>,
}

/// b0(r1) <- b1(r2) <- b2(r3) <- b4(r4', author != node);  b1 <- b3 (r5 through a TC, other author)
fn family(w: &World, t: usize) -> Family {
    let others: Vec<usize> = (0..4).filter(|i| *i != t).collect();
    let mut blocks = Vec::new();
    let mut parent = Vec::new();
    let mut author = Vec::new();
    let b0 = w.block(w.ref_leader(1), 1, QC::genesis(), None, vec![]);
    let b1 = w.block(w.ref_leader(2), 2, w.qc(&b0, &others), None, vec![]);
    let b2 = w.block(w.ref_leader(3), 3, w.qc(&b1, &others), None, vec![]);
    let tc = w.tc(4, &others.iter().map(|o| (*o, 2)).collect::<Vec<_>>());
    let b3 = w.block(w.ref_leader(5), 5, w.qc(&b1, &others), Some(tc), vec![]);
    let b4 = w.block(w.ref_leader(6), 6, w.qc(&b2, &others), Some(w.tc(5, &others.iter().map(|o| (*o, 3)).collect::<Vec<_>>())), vec![]);
    for (b, p) in [(b0, None), (b1, Some(0)), (b2, Some(1)), (b3, Some(1)), (b4, Some(2))] {
        author.push(w.index_of(&b.author).unwrap());
        blocks.push(b);
        parent.push(p);
    }
    Family { blocks, parent, author }
}

struct Sut {
    rt: Rt,
    sync: Option<Synchronizer>,
    rx_loopback: Receiver<Block>,
    store: store::Store,
    #[allow(dead_code)]
    mem: MemMap,
    outs: Vec<Endpoint>,
}

fn boot(w: &World, t: usize) -> Sut {
    let rt = Rt::new();
    let name = w.name(t);
    let committee = w.committee.clone();
    let (sync, rx_loopback, store, mem) = rt.block_on(async {
        let (store, mem) = mem_store();
        let (tx_loopback, rx_loopback) = channel(1_000);
        let sync = Synchronizer::new(name, committee, store.clone(), tx_loopback, RETRY_DELAY);
        (sync, rx_loopback, store, mem)
    });
    rt.quiesce();
    Sut { rt, sync: Some(sync), rx_loopback, store, mem, outs: Vec::new() }
}

/// One execution. Returns (violations, distinct observation string).
pub fn run_one(w: &World, t: usize, seq: &[Op]) -> (Vec<(String, String)>, String) {
    let fam = family(w, t);
    let digests: Vec<Digest> = fam.blocks.iter().map(|b| b.digest()).collect();
    let mut sut = boot(w, t);
    let mut bad: Vec<(String, String)> = Vec::new();
    // reference model
    let mut stored: BTreeSet<usize> = BTreeSet::new();
    let mut parked: BTreeSet<usize> = BTreeSet::new();
    let mut wanted: BTreeMap<usize, usize> = BTreeMap::new(); // missing parent -> step at which it was first wanted
    let mut obs = String::new();
    for (i, op) in seq.iter().enumerate() {
        let mut expect_loop: Vec<usize> = Vec::new();
        let mut expect_first: Option<(usize, usize)> = None; // (parent, author to ask)
        let mut expect_retry: Vec<usize> = Vec::new();
        match op {
            Op::Park(k) => {
                let b = fam.blocks[*k].clone();
                let mut s = sut.sync.take().expect("synchronizer handle");
                let got = sut.rt.block_on(async {
                    let r = s.get_parent_block(&b).await;
                    (s, r)
                });
                sut.sync = Some(got.0);
                let p = fam.parent[*k];
                match (got.1, p) {
                    (Err(e), _) => bad.push(("sync-error".into(), format!("step {} ({:?}): get_parent_block failed: {:?}", i, op, e))),
                    (Ok(Some(pb)), None) => {
                        if pb.digest() != Block::genesis().digest() {
                            bad.push(("wrong-parent".into(), format!("step {} ({:?}): the parent of a block on the genesis QC is not genesis", i, op)));
                        }
                    }
                    (Ok(None), None) => bad.push(("wrong-parent".into(), format!("step {} ({:?}): no parent returned for a block on the genesis QC", i, op))),
                    (Ok(Some(pb)), Some(p)) => {
                        if !stored.contains(&p) {
                            bad.push(("parent-from-nowhere".into(), format!("step {} ({:?}): a parent was returned although it was never stored", i, op)));
                        } else if bincode::serialize(&pb).unwrap() != bincode::serialize(&fam.blocks[p]).unwrap() {
                            bad.push(("wrong-parent".into(), format!("step {} ({:?}): the returned parent is not the block stored under the parent digest", i, op)));
                        }
                    }
                    (Ok(None), Some(p)) => {
                        if stored.contains(&p) {
                            bad.push(("parent-not-found".into(), format!("step {} ({:?}): the parent is in the store but was not returned", i, op)));
                        } else if parked.insert(*k) && !wanted.contains_key(&p) {
                            wanted.insert(p, i);
                            expect_first = Some((p, fam.author[*k]));
                        }
                    }
                }
            }
            Op::Store(k) => {
                let key = digests[*k].to_vec();
                let val = bincode::serialize(&fam.blocks[*k]).unwrap();
                let mut st = sut.store.clone();
                sut.rt.block_on(async move { st.write(key, val).await });
                stored.insert(*k);
                wanted.remove(k);
                let resumed: Vec<usize> = parked.iter().cloned().filter(|c| fam.parent[*c] == Some(*k)).collect();
                for c in resumed {
                    parked.remove(&c);
                    expect_loop.push(c);
                }
            }
            Op::Wait => {
                expect_retry = wanted.keys().cloned().collect();
                sut.rt.run_for(RETRY_DELAY + 2 * TIMER_ACCURACY + 1);
            }
        }
        sut.rt.quiesce();
        simnet::enter(sut.rt.ns);
        sut.outs.extend(simnet::take_outbound());
        // requests observed in this step: digest index -> peers asked
        let mut asked: BTreeMap<usize, BTreeSet<usize>> = BTreeMap::new();
        let mut foreign = 0usize;
        for ep in &sut.outs {
            let peer = (ep.addr.port() - CONSENSUS_PORT0) as usize;
            for f in ep.read_frames() {
                match bincode::deserialize::<ConsensusMessage>(&f) {
                    Ok(ConsensusMessage::SyncRequest(d, from)) => {
                        if from != w.name(t) {
                            bad.push(("wrong-requestor".into(), format!("step {} ({:?}): a sync request names another node as the requestor", i, op)));
                        }
                        match digests.iter().position(|x| *x == d) {
                            Some(x) => {
                                asked.entry(x).or_default().insert(peer);
                            }
                            None => foreign += 1,
                        }
                    }
                    _ => foreign += 1,
                }
            }
        }
        if let Some((p, a)) = expect_first {
            if !asked.get(&p).map_or(false, |s| s.contains(&a)) {
                bad.push(("missing-parent-not-requested".into(), format!("step {} ({:?}): the parent (block {}) is missing but no SyncRequest for it was sent to the block's author n{} (requests seen: {:?})", i, op, p, a, asked)));
            }
        }
        for p in &expect_retry {
            let want: BTreeSet<usize> = (0..4).filter(|x| *x != t).collect();
            let got = asked.get(p).cloned().unwrap_or_default();
            if !want.is_subset(&got) {
                bad.push(("no-retry-with-other-peers".into(), format!("step {} ({:?}): block {} has been missing for longer than the retry delay but the request was not repeated to all other peers (asked in this period: {:?}; all requests: {:?})", i, op, p, got, asked)));
            }
        }
        // loopback deliveries
        let mut looped: Vec<usize> = Vec::new();
        while let Ok(b) = sut.rx_loopback.try_recv() {
            match digests.iter().position(|x| *x == b.digest()) {
                Some(x) => looped.push(x),
                None => bad.push(("loopback-unknown".into(), format!("step {} ({:?}): an unknown block came back on the loopback channel", i, op))),
            }
        }
        looped.sort();
        expect_loop.sort();
        if looped != expect_loop {
            bad.push(("loopback-mismatch".into(), format!("step {} ({:?}): blocks resumed {:?}, reference {:?} (parked blocks must come back exactly once, when their parent is stored)", i, op, looped, expect_loop)));
        }
        for p in sut.rt.panics() {
            bad.push(("panic".into(), format!("step {} ({:?}): a synchronizer task panicked: {}", i, op, p)));
        }
        obs.push_str(&format!("{:?}:{:?}:{};", asked, looped, foreign));
        if !bad.is_empty() {
            break;
        }
    }
    (bad, obs)
}

fn sequences(maxlen: usize) -> Vec<Vec<Op>> {
    let alphabet = [Op::Park(1), Op::Park(2), Op::Park(3), Op::Park(4), Op::Store(0), Op::Store(1), Op::Store(2), Op::Wait];
    fn rec(len: usize, a: &[Op], cur: &mut Vec<Op>, out: &mut Vec<Vec<Op>>) {
        if !cur.is_empty() {
            out.push(cur.clone());
        }
        if cur.len() == len {
            return;
        }
        for e in a {
            // a second wait in a row checks that the retry is repeated; a third adds nothing
            if *e == Op::Wait && cur.len() >= 2 && cur[cur.len() - 1] == Op::Wait && cur[cur.len() - 2] == Op::Wait {
                continue;
            }
            cur.push(*e);
            rec(len, a, cur, out);
            cur.pop();
        }
    }
    let mut out = Vec::new();
    rec(maxlen, &alphabet, &mut Vec::new(), &mut out);
    out
}

pub fn run(rep: &mut Report, tier: Tier) {
    let w = World::new(&[1, 1, 1, 1]);
    let maxlen = tier.pick(5usize, 6usize);
    let seqs = sequences(maxlen);
    let nodes: Vec<usize> = tier.pick(vec![0], vec![0, 3]);
    let mut total = 0usize;
    let mut outcomes: BTreeSet<String> = BTreeSet::new();
    for &t in &nodes {
        let results = par_map(seqs.len(), ncpu(), |i| run_one(&w, t, &seqs[i]));
        let mut best: BTreeMap<String, (usize, String)> = BTreeMap::new();
        for (i, (bad, obs)) in results.iter().enumerate() {
            total += 1;
            outcomes.insert(obs.clone());
            for (sig, what) in bad {
                let e = best.entry(sig.clone()).or_insert((i, what.clone()));
                if seqs[i].len() < seqs[e.0].len() {
                    *e = (i, what.clone());
                }
            }
        }
        for (sig, (i, what)) in &best {
            rep.violation(format!("syncseq:{}", sig), format!("[block synchronizer of n{}, ops {:?}] {}", t, seqs[*i], what), json!({"engine":"seq-sync","node":t,"ops":seqs[*i].iter().map(|o| format!("{:?}", o)).collect::<Vec<_>>()}));
        }
    }
    println!("  block synchronizer: operation sequences={} distinct observations={}", total, outcomes.len());
    rep.set("synchronizer_sequences", json!({"executions": total, "distinct_observations": outcomes.len(), "max_length": maxlen, "nodes_under_test": nodes,
        "alphabet": "get_parent_block(b) for b in {b1(r2), b2(r3), b3(r5, sibling of b2 through a TC, other author), b4(r6 on b2)}; store b0/b1/b2; wait (retry delay + 2 timer periods)",
        "oracle": "parent returned iff stored and equal to the stored block; a missing parent is requested from the block's author in the same step; after the retry delay it is requested from every other peer; a parked block comes back on the loopback channel exactly once, in the step its parent is stored, and never otherwise; no panic"}));
}

fn parse_op(s: &str) -> Option<Op> {
    let s = s.trim();
    if s == "Wait" {
        return Some(Op::Wait);
    }
    let num = |p: &str| s.strip_prefix(p).and_then(|r| r.strip_suffix(')')).and_then(|r| r.parse::<usize>().ok());
    if let Some(k) = num("Park(") {
        return Some(Op::Park(k));
    }
    num("Store(").map(Op::Store)
}

pub fn replay(v: &Value) -> i32 {
    let r = &v["replay"];
    let t = r["node"].as_u64().unwrap_or(0) as usize;
    let ops: Option<Vec<Op>> = r["ops"].as_array().map(|a| a.iter().filter_map(|x| x.as_str().and_then(parse_op)).collect());
    let ops = match ops {
        Some(o) if !o.is_empty() => o,
        _ => {
            eprintln!("replay file carries no operation list");
            return 2;
        }
    };
    let w = World::new(&[1, 1, 1, 1]);
    let (bad, obs) = run_one(&w, t, &ops);
    println!("ops {:?}\nobservations {}", ops, obs);
    for (sig, what) in &bad {
        println!("[{}] {}", sig, what);
    }
    if bad.is_empty() {
        println!("replay did not reproduce a violation of C07");
        0
    } else {
        1
    }
}
