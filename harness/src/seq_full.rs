// C08: one real FULL node (mempool + consensus on a shared store) against a scripted world that
// holds the other three keys. Every sequence (up to a length bound) of proposals with payloads,
// batch deliveries and timer expiries; at every quiescent point every vote that left the node and
// every block it delivered as committed must have all its batches in the node's own store.
use crate::driver::{consensus_frame_needs_ack, Node, NodeCfg, StoreKind};
use crate::util::{ncpu, par_map, Report, Tier};
use crate::world::{World, CONSENSUS_PORT0, MEMPOOL_PORT0};
use consensus::verif::ConsensusMessage;
use consensus::{Block, QC};
use crypto::{Digest, Hash as _};
use ed25519_dalek::{Digest as _, Sha512};
use mempool::verif::MempoolMessage;
use serde_json::json;
use std::collections::{BTreeMap, BTreeSet};
use std::convert::TryInto;

fn sha(bytes: &[u8]) -> Digest {
    Digest(Sha512::digest(bytes).as_slice()[..32].try_into().unwrap())
}

#[derive(Clone, Copy, Debug, PartialEq, Eq, PartialOrd, Ord)]
enum Ev {
    Propose(usize), // index into the block family
    Batch(usize),   // batch 0 / 1 delivered on the mempool port
    Timer,
    Tc(u64), // a valid TC for round r (all three others claim the genesis QC)
}

struct Family {
    blocks: Vec<Block>,
    batches: Vec<Vec<u8>>,
    digests: Vec<Digest>,
}

/// Blocks r1 <- r2 <- r3 <- r5(TC r4); `payloads[i]` = bitmask of the two batches for block i.
fn family(w: &World, t: usize, payloads: &[u8]) -> Family {
    let batches: Vec<Vec<u8>> = vec![
        bincode::serialize(&MempoolMessage::Batch(vec![vec![1u8, 1, 1]])).unwrap(),
        bincode::serialize(&MempoolMessage::Batch(vec![vec![2u8; 5], vec![3u8]])).unwrap(),
    ];
    let digests: Vec<Digest> = batches.iter().map(|b| sha(b)).collect();
    let others: Vec<usize> = (0..4).filter(|i| *i != t).collect();
    let mut blocks = Vec::new();
    let mut qc = QC::genesis();
    let rounds = [1u64, 2, 3, 5];
    let mut prev_round = 0;
    for (i, r) in rounds.iter().enumerate() {
        let mut payload = Vec::new();
        for (k, d) in digests.iter().enumerate() {
            if payloads.get(i).cloned().unwrap_or(0) & (1 << k) != 0 {
                payload.push(d.clone());
            }
        }
        let tc = if *r > prev_round + 1 { Some(w.tc(r - 1, &others.iter().map(|o| (*o, prev_round)).collect::<Vec<_>>())) } else { None };
        let b = w.block(w.ref_leader(*r), *r, qc.clone(), tc, payload);
        qc = w.qc(&b, &others);
        prev_round = *r;
        blocks.push(b);
    }
    Family { blocks, batches, digests }
}

fn run_one(w: &World, t: usize, payloads: &[u8], seq: &[Ev]) -> (Vec<(String, String)>, u64, (usize, usize, usize)) {
    let fam = family(w, t, payloads);
    let mut cfg = NodeCfg::consensus_only(t);
    cfg.with_mempool = true;
    cfg.store = StoreKind::Mem;
    cfg.mempool_params = Some(mempool::Parameters { gc_depth: 50, sync_retry_delay: 1_000_000_000, sync_retry_nodes: 3, batch_size: 1_000_000, max_batch_delay: 1_000_000_000 });
    let mut node = Node::boot(w, cfg);
    let mut bad: Vec<(String, String)> = Vec::new();
    let my = w.name(t);
    let by_digest: BTreeMap<Digest, &Block> = fam.blocks.iter().map(|b| (b.digest(), b)).collect();
    let mut votes = 0;
    let mut commits = 0;
    let mut requests = 0;
    let mut voted: BTreeSet<Digest> = BTreeSet::new();
    let mut max_qc_voted: u64 = 0;
    let needs_ack = |f: &crate::driver::Frame| {
        let port = f.dst.port();
        if port >= MEMPOOL_PORT0 {
            false
        } else {
            consensus_frame_needs_ack(f)
        }
    };
    let mut steps = 0u64;
    // digests for which a BatchRequest left the node at any earlier step: the mempool synchronizer
    // keeps such a request pending (no Cleanup reaches gc_depth here) and rightly does not repeat it
    // when a second block references the same batch
    let mut ever_requested: BTreeSet<Digest> = BTreeSet::new();
    for (i, ev) in seq.iter().enumerate() {
        steps += 1;
        match ev {
            Ev::Propose(k) => {
                let m = ConsensusMessage::Propose(fam.blocks[*k].clone());
                node.deliver(CONSENSUS_PORT0 + t as u16, &bincode::serialize(&m).unwrap());
            }
            Ev::Batch(k) => node.deliver(MEMPOOL_PORT0 + t as u16, &fam.batches[*k]),
            Ev::Timer => node.fire_timer(),
            Ev::Tc(r) => {
                let others: Vec<usize> = (0..4).filter(|i| *i != t).collect();
                let m = ConsensusMessage::TC(w.tc(*r, &others.iter().map(|o| (*o, 0)).collect::<Vec<_>>()));
                node.deliver(CONSENSUS_PORT0 + t as u16, &bincode::serialize(&m).unwrap());
            }
        }
        let frames = node.settle(&needs_ack);
        let store_has = |node: &Node, d: &Digest| node.mem.as_ref().unwrap().lock().unwrap().contains_key(&d.to_vec());
        let mut missing_requested: BTreeSet<Digest> = BTreeSet::new();
        for f in &frames {
            let port = f.dst.port();
            if port >= MEMPOOL_PORT0 {
                if let Ok(MempoolMessage::BatchRequest(ds, _)) = bincode::deserialize::<MempoolMessage>(&f.bytes) {
                    requests += 1;
                    missing_requested.extend(ds);
                }
                continue;
            }
            if let Ok(ConsensusMessage::Vote(v)) = bincode::deserialize::<ConsensusMessage>(&f.bytes) {
                if v.author == my {
                    votes += 1;
                    voted.insert(v.hash.clone());
                    if let Some(b) = by_digest.get(&v.hash) {
                        max_qc_voted = max_qc_voted.max(b.qc.round);
                        for d in &b.payload {
                            if !store_has(&node, d) {
                                bad.push(("vote-without-payload".into(), format!("step {} ({:?}): the node voted for the round-{} block although batch {:?} of its payload is not in its store", i, ev, b.round, d)));
                            }
                        }
                    }
                }
            }
        }
        ever_requested.extend(missing_requested.iter().cloned());
        for f in &frames {
            if f.dst.port() < MEMPOOL_PORT0 {
                if let Ok(ConsensusMessage::Timeout(tm)) = bincode::deserialize::<ConsensusMessage>(&f.bytes) {
                    if tm.author == my && tm.high_qc.round < max_qc_voted {
                        bad.push(("timeout-hqc-below-voted".into(), format!("step {} ({:?}): the node's timeout for round {} carries a QC of round {} although it voted for a block whose QC is of round {}", i, ev, tm.round, tm.high_qc.round, max_qc_voted)));
                    }
                }
            }
        }
        for b in node.commits() {
            commits += 1;
            for d in &b.payload {
                if !store_has(&node, d) {
                    bad.push(("commit-without-payload".into(), format!("step {} ({:?}): the node delivered the round-{} block as committed although batch {:?} of its payload is not in its store", i, ev, b.round, d)));
                }
            }
        }
        // a proposal whose batches are missing must trigger a batch request (and no vote)
        if let Ev::Propose(k) = ev {
            let b = &fam.blocks[*k];
            let missing: Vec<&Digest> = b.payload.iter().filter(|d| !store_has(&node, d)).collect();
            let first_time = !seq[..i].contains(ev);
            if !missing.is_empty() && first_time && !missing.iter().all(|d| ever_requested.contains(*d)) {
                bad.push(("no-batch-request".into(), format!("step {} ({:?}): the proposal's payload is missing locally but no BatchRequest for it was ever sent", i, ev)));
            }
        }
        for p in node.rt.panics() {
            bad.push(("panic".into(), format!("step {} ({:?}): a node task panicked: {}", i, ev, p)));
        }
        // a missing batch request is reported but the run goes on, so that a blind vote or commit
        // that follows from it is reported too
        if bad.iter().any(|(sig, _)| sig != "no-batch-request") {
            break;
        }
    }
    bad.dedup_by(|a, b| a.0 == b.0);
    (bad, steps, (votes, commits, requests))
}

pub fn c08(tier: Tier) -> i32 {
    let mut rep = Report::new("C08", tier, "model_checking");
    let w = World::new(&[1, 1, 1, 1]);
    let t = 0usize;
    let payload_sets: Vec<Vec<u8>> = match tier {
        Tier::Quick => vec![vec![1, 0, 0, 0], vec![1, 2, 0, 0], vec![3, 0, 0, 0], vec![0, 3, 0, 0]],
        Tier::Thorough => {
            let mut v = Vec::new();
            for a in 0..4u8 {
                for b in 0..4u8 {
                    if a | b != 0 {
                        v.push(vec![a, b, 0, 0]);
                    }
                }
            }
            v.push(vec![0, 0, 1, 0]);
            v.push(vec![1, 0, 2, 0]);
            v
        }
    };
    let alphabet = [Ev::Propose(0), Ev::Propose(1), Ev::Propose(2), Ev::Propose(3), Ev::Batch(0), Ev::Batch(1), Ev::Timer];
    let maxlen = tier.pick(5usize, 6usize);
    fn rec(len: usize, a: &[Ev], cur: &mut Vec<Ev>, out: &mut Vec<Vec<Ev>>) {
        if cur.len() == len {
            out.push(cur.clone());
            return;
        }
        for e in a {
            // at most one timer expiry and no immediate repetition of the same batch (no effect)
            if *e == Ev::Timer && cur.contains(&Ev::Timer) {
                continue;
            }
            if matches!(e, Ev::Batch(_)) && cur.last() == Some(e) {
                continue;
            }
            cur.push(*e);
            rec(len, a, cur, out);
            cur.pop();
        }
    }
    let mut seqs = Vec::new();
    rec(maxlen, &alphabet, &mut Vec::new(), &mut seqs);
    let mut jobs: Vec<(usize, usize)> = Vec::new();
    for p in 0..payload_sets.len() {
        for s in 0..seqs.len() {
            jobs.push((p, s));
        }
    }
    let results = par_map(jobs.len(), ncpu(), |i| {
        let (p, s) = jobs[i];
        run_one(&w, t, &payload_sets[p], &seqs[s])
    });
    let mut steps = 0u64;
    let (mut votes, mut commits, mut requests) = (0usize, 0usize, 0usize);
    let mut best: BTreeMap<String, (String, usize)> = BTreeMap::new();
    for (i, (bad, st, (v, c, r))) in results.into_iter().enumerate() {
        steps += st;
        votes += v;
        commits += c;
        requests += r;
        for (sig, what) in bad {
            best.entry(sig).or_insert((what, i));
        }
    }
    for (sig, (what, i)) in &best {
        let (p, s) = jobs[*i];
        rep.violation(format!("full:{}", sig), format!("[payloads {:?} events {:?}] {}", payload_sets[p], seqs[s], what), json!({"engine":"seq-full","node":t,"payload_masks":payload_sets[p],"events":seqs[s].iter().map(|e| format!("{:?}", e)).collect::<Vec<_>>()}));
    }
    println!("  full node: executions={} events={} votes observed={} commits observed={} batch requests observed={}", jobs.len(), steps, votes, commits, requests);
    rep.set("states", json!(jobs.len()));
    rep.set("transitions", json!(steps));
    rep.set("traces_validated_against_impl", json!(jobs.len()));
    rep.set("votes_observed", json!(votes));
    rep.set("commits_observed", json!(commits));
    rep.set("batch_requests_observed", json!(requests));
    rep.set("exhaustive", json!(true));
    rep.set("bounds", json!({"node_under_test": t, "block_family":"r1 <- r2 <- r3 <- r5 (TC r4), authored by the round leaders, certified by the three other authorities","payload_assignments": payload_sets.len(), "sequence_length": maxlen, "alphabet":"deliver proposal i (any order, duplicates allowed), deliver batch 0/1 on the mempool port, one timer expiry"}));
    rep.sample(json!({"payload_masks": payload_sets[0], "events": seqs[seqs.len() / 2].iter().map(|e| format!("{:?}", e)).collect::<Vec<_>>()}));
    rep.set("explanation", json!("states = event sequences executed from scratch on a freshly booted real full node (Mempool::spawn + Consensus::spawn wired as node.rs does, shared in-memory store actor); transitions = events delivered; the store is inspected at the instant each vote / commit is observed (nothing else can run: the harness is the only source of events)."));
    rep.assume("the harness plays the three other authorities with their real keys (so all certificates are genuine); the node's own batches are the subject of C12/C13");
    rep.finish()
}

pub fn replay(v: &serde_json::Value) -> i32 {
    let r = &v["replay"];
    let t = r["node"].as_u64().unwrap_or(0) as usize;
    let payloads: Vec<u8> = r["payload_masks"].as_array().cloned().unwrap_or_default().iter().map(|x| x.as_u64().unwrap_or(0) as u8).collect();
    let mut seq = Vec::new();
    for o in r["events"].as_array().cloned().unwrap_or_default() {
        let o = o.as_str().unwrap_or("").to_string();
        let num = |s: &str| s.chars().filter(|c| c.is_ascii_digit()).collect::<String>().parse::<usize>().unwrap_or(0);
        let e = if o.starts_with("Propose") { Ev::Propose(num(&o)) } else if o.starts_with("Batch") { Ev::Batch(num(&o)) } else if o.starts_with("Tc") { Ev::Tc(num(&o) as u64) } else { Ev::Timer };
        seq.push(e);
    }
    let w = World::new(&[1, 1, 1, 1]);
    let (bad, _, (votes, commits, requests)) = run_one(&w, t, &payloads, &seq);
    println!("payload masks {:?}, events {:?}: votes={} commits={} batch requests={}", payloads, seq, votes, commits, requests);
    for (sig, what) in &bad {
        println!("[{}] {}", sig, what);
    }
    if bad.is_empty() {
        println!("replay did not reproduce a violation of C08");
        0
    } else {
        1
    }
}

/// C10 on the payload-resumed path: proposals whose batches are missing, batch arrivals, TCs and
/// the timer, on one real full node; every timeout must carry a QC at least as high as the QC of
/// any block the node voted for.
pub fn c10_payload_paths(rep: &mut Report, tier: Tier) {
    let w = World::new(&[1, 1, 1, 1]);
    let t = 0usize;
    let payload_sets: Vec<Vec<u8>> = tier.pick(vec![vec![0, 1, 0, 0]], vec![vec![0, 1, 0, 0], vec![1, 1, 0, 0], vec![0, 1, 1, 0]]);
    let alphabet = [Ev::Propose(0), Ev::Propose(1), Ev::Propose(2), Ev::Batch(0), Ev::Tc(1), Ev::Tc(2), Ev::Timer];
    let maxlen = tier.pick(5usize, 6usize);
    fn rec(len: usize, a: &[Ev], cur: &mut Vec<Ev>, out: &mut Vec<Vec<Ev>>) {
        if cur.len() == len {
            out.push(cur.clone());
            return;
        }
        for e in a {
            if cur.last() == Some(e) && !matches!(e, Ev::Timer) {
                continue;
            }
            cur.push(*e);
            rec(len, a, cur, out);
            cur.pop();
        }
    }
    let mut seqs = Vec::new();
    rec(maxlen, &alphabet, &mut Vec::new(), &mut seqs);
    let mut jobs = Vec::new();
    for p in 0..payload_sets.len() {
        for s in 0..seqs.len() {
            jobs.push((p, s));
        }
    }
    let results = par_map(jobs.len(), ncpu(), |i| {
        let (p, s) = jobs[i];
        run_one(&w, t, &payload_sets[p], &seqs[s])
    });
    let mut steps = 0u64;
    let mut votes = 0usize;
    let mut reported = false;
    for (i, (bad, st, (v, _, _))) in results.into_iter().enumerate() {
        steps += st;
        votes += v;
        for (sig, what) in bad {
            if sig == "timeout-hqc-below-voted" && !reported {
                reported = true;
                let (p, s) = jobs[i];
                rep.violation("timeout:hqc-below-voted".into(), format!("[full node, payloads {:?} events {:?}] {}", payload_sets[p], seqs[s], what), json!({"engine":"seq-full","node":t,"payload_masks":payload_sets[p],"events":seqs[s].iter().map(|e| format!("{:?}", e)).collect::<Vec<_>>()}));
            }
        }
    }
    println!("  full node (payload-resumed paths): executions={} events={} votes observed={}", jobs.len(), steps, votes);
    rep.add("states", jobs.len() as u64);
    rep.add("transitions", steps);
    rep.add("traces_validated_against_impl", jobs.len() as u64);
    rep.set("full_node_payload_paths", json!({"executions": jobs.len(), "sequence_length": maxlen, "alphabet": "proposals r1..r3 (payload assignments as listed), batch 0 arrival, TC(1), TC(2), timer", "payload_assignments": payload_sets, "votes_observed": votes}));
}
