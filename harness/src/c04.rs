// C04: mutant non-interference. For every local state of one real node reached by a bounded
// adversarial exploration and every valid message deliverable there, every mutant of that message
// (altered signed field, transplanted / bit-flipped signature, repeated / non-member / missing
// certificate signer, spliced certificate) that an independent reference classifies as invalid
// must (a) be rejected by the repository's verify function and (b) leave the node's state and
// outputs unchanged and its reaction to the next valid message identical.
use crate::proto::solo::{self, SoloCfg, Uni2};
use crate::proto::universe::*;
use crate::proto::{Cfg, Search};
use crate::util::{ncpu, Report, Tier};
use crate::world::{sig_bytes, sig_from_bytes, World};
use consensus::verif::ConsensusMessage;
use consensus::{Block, QC, TC};
use ed25519_dalek::{Digest as _, Sha512};
use std::convert::TryInto as _;
use crypto::{Digest, Hash as _, PublicKey, Signature};
use serde_json::json;
use std::collections::{BTreeMap, BTreeSet, HashSet};
use std::sync::atomic::{AtomicU64, AtomicUsize, Ordering};
use std::sync::Mutex;

fn flip(sig: &Signature, bit: usize) -> Signature {
    let mut b = sig_bytes(sig);
    b[bit / 8] ^= 1 << (bit % 8);
    sig_from_bytes(&b)
}

struct Pools {
    sigs: Vec<(String, Signature)>,
    digests: Vec<Digest>,
    members: Vec<PublicKey>,
    outsider: PublicKey,
    outsider_sk: crypto::SecretKey,
    qcs: Vec<QC>,
    tcs: Vec<TC>,
    /// index of a listed member with stake 0 (no voting rights), if the committee has one
    zero: Option<usize>,
}

fn mutate_qc(qc: &QC, w: &World, p: &Pools) -> Vec<(String, QC)> {
    let mut out = Vec::new();
    if qc.votes.is_empty() {
        // genesis QC: give it a round / a hash
        out.push(("genesis QC with round 1".to_string(), QC { hash: qc.hash.clone(), round: 1, votes: vec![] }));
        out.push(("unsigned QC for another block".to_string(), QC { hash: p.digests[0].clone(), round: 0, votes: vec![] }));
        return out;
    }
    let mut q = qc.clone();
    q.votes[1] = q.votes[0].clone();
    out.push(("QC signer repeated".into(), q));
    let mut q = qc.clone();
    q.votes[0].0 = p.outsider;
    out.push(("QC signer replaced by a non-member".into(), q));
    let mut q = qc.clone();
    q.votes.pop();
    out.push(("QC with one signer dropped (below quorum)".into(), q));
    let mut q = qc.clone();
    q.round += 1;
    out.push(("QC round altered".into(), q));
    let mut q = qc.clone();
    q.hash = p.digests.iter().find(|d| **d != qc.hash).cloned().unwrap_or_default();
    out.push(("QC block hash altered".into(), q));
    let mut q = qc.clone();
    q.votes[0].1 = flip(&q.votes[0].1, 77);
    out.push(("QC signature bit flipped".into(), q));
    for (name, s) in p.sigs.iter().take(6) {
        let mut q = qc.clone();
        q.votes[0].1 = s.clone();
        out.push((format!("QC signature replaced by {}", name), q));
    }
    let mut q = qc.clone();
    q.votes[0].0 = *p.members.iter().find(|m| !qc.votes.iter().any(|(k, _)| k == *m)).unwrap_or(&p.outsider);
    out.push(("QC signer name replaced by another member (signature kept)".into(), q));
    // entries AFTER a full quorum of genuine ones
    let mut q = qc.clone();
    q.votes.push(qc.votes[0].clone());
    out.push(("QC with a repeated signer appended after the quorum".into(), q));
    let mut q = qc.clone();
    let vd = QC { hash: qc.hash.clone(), round: qc.round, votes: Vec::new() }.digest();
    q.votes.push((p.outsider, Signature::new(&vd, &p.outsider_sk)));
    out.push(("QC with a correctly self-signed non-member appended after the quorum".into(), q));
    let _ = w;
    out
}

fn mutate_tc(tc: &TC, p: &Pools) -> Vec<(String, TC)> {
    let mut out = Vec::new();
    let mut t = tc.clone();
    t.votes[1] = t.votes[0].clone();
    out.push(("TC signer repeated".into(), t));
    let mut t = tc.clone();
    t.votes[0].0 = p.outsider;
    out.push(("TC signer replaced by a non-member".into(), t));
    let mut t = tc.clone();
    t.votes.pop();
    out.push(("TC with one signer dropped (below quorum)".into(), t));
    let mut t = tc.clone();
    t.votes.truncate(1);
    out.push(("TC with a single signer".into(), t));
    let mut t = tc.clone();
    t.votes[0].2 += 1;
    out.push(("TC entry's high-QC round altered".into(), t));
    let mut t = tc.clone();
    t.round += 1;
    out.push(("TC round altered".into(), t));
    let mut t = tc.clone();
    t.round += 40;
    out.push(("TC round altered (+40)".into(), t));
    let mut t = tc.clone();
    t.votes[0].1 = flip(&t.votes[0].1, 300);
    out.push(("TC signature bit flipped".into(), t));
    for (name, s) in p.sigs.iter().take(4) {
        let mut t = tc.clone();
        t.votes[0].1 = s.clone();
        out.push((format!("TC signature replaced by {}", name), t));
    }
    out.push(("TC without signers".into(), TC { round: tc.round, votes: vec![] }));
    // entries AFTER a full quorum of genuine ones
    let mut t = tc.clone();
    t.votes.push(tc.votes[0].clone());
    out.push(("TC with a repeated signer appended after the quorum".into(), t));
    for claim in [0u64, 1_000] {
        let mut t = tc.clone();
        let mut hasher = Sha512::new();
        hasher.update(tc.round.to_le_bytes());
        hasher.update(claim.to_le_bytes());
        let d = Digest(hasher.finalize().as_slice()[..32].try_into().unwrap());
        t.votes.push((p.outsider, Signature::new(&d, &p.outsider_sk), claim));
        out.push((format!("TC with a correctly self-signed non-member (claiming QC round {}) appended after the quorum", claim), t));
    }
    out
}

fn mutants(m: &ConsensusMessage, w: &World, p: &Pools) -> Vec<(String, ConsensusMessage)> {
    let mut out: Vec<(String, ConsensusMessage)> = Vec::new();
    match m {
        ConsensusMessage::Propose(b) => {
            let push = |d: String, x: Block, out: &mut Vec<(String, ConsensusMessage)>| out.push((d, ConsensusMessage::Propose(x)));
            for k in p.members.iter().chain(std::iter::once(&p.outsider)) {
                if *k != b.author {
                    let mut x = b.clone();
                    x.author = *k;
                    push("block author altered".into(), x, &mut out);
                }
            }
            for r in [b.round.wrapping_sub(1), b.round + 1, b.round + 4] {
                let mut x = b.clone();
                x.round = r;
                push("block round altered".into(), x, &mut out);
            }
            let mut x = b.clone();
            x.payload.push(p.digests[0].clone());
            push("block payload altered".into(), x, &mut out);
            if let Some(z) = p.zero {
                push("the same block authored and correctly signed by a listed member without voting rights".into(), w.block(z, b.round, b.qc.clone(), b.tc.clone(), b.payload.clone()), &mut out);
                if !b.qc.votes.is_empty() {
                    let mut x = b.clone();
                    let d = x.qc.digest();
                    x.qc.votes.push((w.name(z), w.sign(z, &d)));
                    push("block whose QC additionally lists a correctly signing member without voting rights".into(), x, &mut out);
                }
            }
            for (bit, name) in [(3usize, "low"), (200, "mid"), (300, "s-half"), (511, "last")] {
                let mut x = b.clone();
                x.signature = flip(&x.signature, bit);
                push(format!("block signature bit flipped ({})", name), x, &mut out);
            }
            for (name, s) in &p.sigs {
                let mut x = b.clone();
                x.signature = s.clone();
                push(format!("block signature replaced by {}", name), x, &mut out);
            }
            for (d, q) in mutate_qc(&b.qc, w, p) {
                let mut x = b.clone();
                x.qc = q;
                // re-sign where the mutation changed the digest, so that only the certificate is at fault
                if x.digest() != b.digest() {
                    if let Some(i) = w.index_of(&x.author) {
                        x.signature = w.sign(i, &x.digest());
                    }
                }
                push(format!("block with {}", d), x, &mut out);
            }
            match &b.tc {
                Some(tc) => {
                    for (d, t) in mutate_tc(tc, p) {
                        let mut x = b.clone();
                        x.tc = Some(t);
                        push(format!("block with {}", d), x, &mut out);
                    }
                }
                None => {
                    // splice certificates onto a block that carries none (the TC is not covered by
                    // the block's digest or signature)
                    for tc in &p.tcs {
                        for (d, t) in mutate_tc(tc, p) {
                            let mut x = b.clone();
                            x.tc = Some(t);
                            push(format!("block with spliced {}", d), x, &mut out);
                        }
                    }
                }
            }
        }
        ConsensusMessage::Vote(v) => {
            let push = |d: String, x: consensus::verif::Vote, out: &mut Vec<(String, ConsensusMessage)>| out.push((d, ConsensusMessage::Vote(x)));
            for k in p.members.iter().chain(std::iter::once(&p.outsider)) {
                if *k != v.author {
                    let mut x = v.clone();
                    x.author = *k;
                    push("vote author altered".into(), x, &mut out);
                }
            }
            for r in [v.round.wrapping_sub(1), v.round + 1] {
                let mut x = v.clone();
                x.round = r;
                push("vote round altered".into(), x, &mut out);
            }
            if let Some(z) = p.zero {
                push("the same vote correctly signed by a listed member without voting rights".into(), w.vote_for(z, v.hash.clone(), v.round), &mut out);
            }
            for d in &p.digests {
                if *d != v.hash {
                    let mut x = v.clone();
                    x.hash = d.clone();
                    push("vote block hash altered".into(), x, &mut out);
                }
            }
            for bit in [0usize, 255, 256, 511] {
                let mut x = v.clone();
                x.signature = flip(&x.signature, bit);
                push(format!("vote signature bit {} flipped", bit), x, &mut out);
            }
            for (name, s) in &p.sigs {
                let mut x = v.clone();
                x.signature = s.clone();
                push(format!("vote signature replaced by {}", name), x, &mut out);
            }
        }
        ConsensusMessage::Timeout(t) => {
            let push = |d: String, x: consensus::verif::Timeout, out: &mut Vec<(String, ConsensusMessage)>| out.push((d, ConsensusMessage::Timeout(x)));
            for k in p.members.iter().chain(std::iter::once(&p.outsider)) {
                if *k != t.author {
                    let mut x = t.clone();
                    x.author = *k;
                    push("timeout author altered".into(), x, &mut out);
                }
            }
            for r in [t.round.wrapping_sub(1), t.round + 1, t.round + 9] {
                let mut x = t.clone();
                x.round = r;
                push("timeout round altered".into(), x, &mut out);
            }
            if let Some(z) = p.zero {
                push("the same timeout correctly signed by a listed member without voting rights".into(), w.timeout(z, t.round, t.high_qc.clone()), &mut out);
            }
            for (d, q) in mutate_qc(&t.high_qc, w, p) {
                let mut x = t.clone();
                x.high_qc = q;
                if x.digest() != t.digest() {
                    if let Some(i) = w.index_of(&x.author) {
                        x.signature = w.sign(i, &x.digest());
                    }
                }
                push(format!("timeout with {}", d), x, &mut out);
            }
            for q in &p.qcs {
                // a higher QC spliced in without re-signing (the signature covers the QC round)
                if q.round != t.high_qc.round {
                    let mut x = t.clone();
                    x.high_qc = q.clone();
                    push("timeout high QC replaced by another valid QC (signature kept)".into(), x, &mut out);
                }
            }
            for bit in [1usize, 254, 257, 510] {
                let mut x = t.clone();
                x.signature = flip(&x.signature, bit);
                push(format!("timeout signature bit {} flipped", bit), x, &mut out);
            }
            for (name, s) in &p.sigs {
                let mut x = t.clone();
                x.signature = s.clone();
                push(format!("timeout signature replaced by {}", name), x, &mut out);
            }
        }
        ConsensusMessage::TC(tc) => {
            for (d, t) in mutate_tc(tc, p) {
                out.push((d, ConsensusMessage::TC(t)));
            }
        }
        ConsensusMessage::SyncRequest(..) => {}
    }
    out
}

fn verify_says_ok(m: &ConsensusMessage, w: &World) -> Option<bool> {
    std::panic::catch_unwind(std::panic::AssertUnwindSafe(|| match m {
        ConsensusMessage::Propose(b) => b.verify(&w.committee).is_ok(),
        ConsensusMessage::Vote(v) => v.verify(&w.committee).is_ok(),
        ConsensusMessage::Timeout(t) => t.verify(&w.committee).is_ok(),
        ConsensusMessage::TC(t) => t.verify(&w.committee).is_ok(),
        ConsensusMessage::SyncRequest(..) => true,
    }))
    .ok()
}

pub fn run_node(rep: &mut Report, tier: Tier, stakes: &[u32], node: usize, max_round: u64, depth: usize, with_aggr: bool) {
    let cfg = Cfg {
        name: format!("c04(stakes={:?},node=n{},R={},depth={})", stakes, node, max_round, depth),
        stakes: stakes.to_vec(),
        honest: vec![node],
        byz: None,
        strict: true,
        max_round,
        t_budget: 0,
        k_budget: 0,
        deliver_sync: true,
        canon_certs: true,
        max_states: 1_000_000,
        wall_cap_s: 600.0,
        big_pool: false,
    };
    let s = Search::new(cfg.clone());
    let w = s.world.clone();
    let mut sc: SoloCfg = solo::default_cfg(node, max_round, tier);
    sc.with_votes = with_aggr;
    sc.with_timeouts = with_aggr;
    sc.stale_variants = false;
    sc.with_invalid = false;
    sc.stakes = stakes.to_vec();
    let mut u = Uni2 { blocks: BTreeMap::new() };
    solo::craft_children(&s, &sc, &mut u);
    let evs = solo::menu(&s, &sc, &u, &[]);
    // pools for transplants
    let others: Vec<usize> = (0..w.n()).filter(|i| *i != node).collect();
    let blocks: Vec<Block> = u.blocks.values().cloned().collect();
    let mut sigs: Vec<(String, Signature)> = Vec::new();
    for b in blocks.iter().take(3) {
        sigs.push((format!("the signature of block r{}", b.round), b.signature.clone()));
        sigs.push((format!("n{}'s vote signature for block r{}", others[0], b.round), w.vote(others[0], b).signature));
        if let Some(a) = w.index_of(&b.author) {
            sigs.push((format!("the author's own vote signature for block r{}", b.round), w.vote(a, b).signature));
            sigs.push((format!("the author's timeout signature for round {}", b.round), w.timeout(a, b.round, QC::genesis()).signature));
        }
    }
    sigs.push(("an all-zero signature".into(), Signature::default()));
    let (outsider, outsider_sk) = crate::world::keys(7).into_iter().find(|k| w.index_of(&k.0).is_none()).unwrap();
    let pools = Pools {
        sigs,
        digests: blocks.iter().map(|b| b.digest()).take(3).collect(),
        members: (0..w.n()).map(|i| w.name(i)).collect(),
        outsider,
        outsider_sk,
        qcs: blocks.iter().take(2).map(|b| w.qc(b, &others)).collect(),
        zero: (0..w.n()).find(|i| w.stakes[*i] == 0),
        tcs: vec![w.tc(1, &others.iter().map(|o| (*o, 0)).collect::<Vec<_>>()), w.tc(3, &others.iter().map(|o| (*o, 0)).collect::<Vec<_>>())],
    };
    // states: BFS to `depth` over the valid menu
    let l0 = s.boot_local(node);
    let mut visited: BTreeSet<LId> = BTreeSet::new();
    visited.insert(l0);
    let mut frontier = vec![l0];
    for _ in 0..depth {
        let next: Mutex<Vec<LId>> = Mutex::new(Vec::new());
        let idx = AtomicUsize::new(0);
        std::thread::scope(|scope| {
            for _ in 0..ncpu() {
                scope.spawn(|| {
                    loop {
                        let i = idx.fetch_add(1, Ordering::Relaxed);
                        if i >= frontier.len() {
                            break;
                        }
                        for ev in &evs {
                            let tr = s.ltrans(frontier[i], *ev);
                            if tr.next != frontier[i] {
                                next.lock().unwrap().push(tr.next);
                            }
                        }
                    }
                    crate::proto::clear_thread_cache();
                });
            }
        });
        let mut nf = Vec::new();
        for l in next.into_inner().unwrap() {
            if visited.insert(l) {
                nf.push(l);
            }
        }
        frontier = nf;
    }
    // mutants per valid message
    let mut table: Vec<(Ev, String, MsgId, bool)> = Vec::new(); // (origin event, description, mutant id, verify ok)
    let mut valid_mutants = 0u64;
    let mut verify_checked = 0u64;
    let mut seen: HashSet<MsgId> = HashSet::new();
    for ev in &evs {
        if let Ev::Deliver(m) = ev {
            let info = s.uni.msg(*m);
            for (d, mm) in mutants(&info.msg, &w, &pools) {
                if w.ref_valid_msg(&mm) {
                    valid_mutants += 1;
                    continue;
                }
                verify_checked += 1;
                let vok = verify_says_ok(&mm, &w);
                if vok != Some(false) {
                    rep.violation(
                        format!("verify-accepts:{}", d.split(" replaced by").next().unwrap_or(&d)),
                        format!("[{}] {} derived from {}: the reference classifies it as invalid but verify() {}", cfg.name, d, info.desc, if vok.is_none() { "panicked" } else { "returned Ok" }),
                        json!({"engine":"c04","stage":"verify","mutation":d,"origin":info.desc,"bytes":crate::util::hex(&bincode::serialize(&mm).unwrap())}),
                    );
                }
                let id = s.uni.intern(mm);
                if seen.insert(id) {
                    table.push((*ev, d, id, vok == Some(true)));
                }
            }
        }
    }
    // node level
    let states: Vec<LId> = visited.iter().cloned().collect();
    let idx = AtomicUsize::new(0);
    let steps = AtomicU64::new(0);
    let found: Mutex<Vec<(String, String, serde_json::Value)>> = Mutex::new(Vec::new());
    std::thread::scope(|scope| {
        for _ in 0..ncpu() {
            scope.spawn(|| {
                loop {
                    let i = idx.fetch_add(1, Ordering::Relaxed);
                    if i >= states.len() {
                        break;
                    }
                    let lid = states[i];
                    for (origin, d, mid, _) in &table {
                        let tr = s.ltrans(lid, Ev::Deliver(*mid));
                        steps.fetch_add(1, Ordering::Relaxed);
                        let mut bad: Option<String> = None;
                        if tr.next != lid || !tr.out.is_empty() {
                            bad = Some(format!("the node's state or outputs changed ({} messages sent)", tr.out.len()));
                        } else {
                            // behavioural non-interference: its reaction to the valid original and
                            // to its own timer must equal the reaction without the invalid message
                            for follow in [*origin, Ev::Timer] {
                                let want = s.ltrans(lid, follow);
                                let mut ln = s.take_live(lid);
                                let _ = ln.apply(&s.uni, Ev::Deliver(*mid));
                                let res = ln.apply(&s.uni, follow);
                                steps.fetch_add(2, Ordering::Relaxed);
                                let got_key = res.key.clone();
                                let want_key = s.locals.get(want.next).key.clone();
                                let got_out: BTreeSet<(MsgId, u8)> = res.out.iter().cloned().collect();
                                let want_out: BTreeSet<(MsgId, u8)> = want.out.iter().map(|p| s.pitem(*p)).collect();
                                if (got_key != want_key || got_out != want_out) && std::env::var("HSV_DEBUG").is_ok() {
                                    eprintln!("DEBUG c04 mismatch at state {} hist {:?}\n follow {}\n want_out {:?}\n got_out {:?}\n want_key {:?}\n got_key {:?}", lid, s.locals.get(lid).history.iter().map(|e| s.describe_ev(e)).collect::<Vec<_>>(), s.describe_ev(&follow), want_out, got_out, want_key, got_key);
                                }
                                if got_key != want_key || got_out != want_out {
                                    bad = Some(format!("its reaction to the following {} differs from the reaction without the invalid message", s.describe_ev(&follow)));
                                    break;
                                }
                            }
                        }
                        if let Some(why) = bad {
                            let hist = s.locals.get(lid).history.clone();
                            let mut f = found.lock().unwrap();
                            let sig = format!("interference:{}", d.split(" replaced by").next().unwrap_or(d));
                            if !f.iter().any(|x| x.0 == sig) {
                                let mut events: Vec<String> = hist.iter().map(|e| s.describe_ev(e)).collect();
                                events.push(format!("deliver INVALID {}: {}", d, s.uni.msg(*mid).desc));
                                let mut raw: Vec<String> = hist.iter().map(|e| s.raw_ev(e)).collect();
                                raw.push(crate::util::hex(&s.uni.msg(*mid).bytes));
                                f.push((sig, format!("[{}] after {} events, an invalid message ({}) was not ignored: {}", cfg.name, hist.len(), d, why), json!({"engine":"c04","stage":"node","kind":"local","node":node,"events":events,"events_raw":raw})));
                            }
                        }
                    }
                }
                crate::proto::clear_thread_cache();
            });
        }
    });
    for (sig, what, replay) in found.into_inner().unwrap() {
        rep.violation(sig, what, replay);
    }
    let st = steps.load(Ordering::Relaxed);
    println!("  {}: states={} valid messages={} invalid mutants={} (valid mutants skipped {}) node steps={}", cfg.name, states.len(), evs.len() - 1, table.len(), valid_mutants, st);
    rep.add("states", states.len() as u64);
    rep.add("transitions", st);
    rep.add("traces_validated_against_impl", st);
    rep.add("invalid_mutants", table.len() as u64);
    rep.add("valid_mutants_skipped", valid_mutants);
    rep.add("verify_calls_checked", verify_checked);
    let mut prev: Vec<serde_json::Value> = rep.coverage.get("configs").and_then(|v| v.as_array().cloned()).unwrap_or_default();
    prev.push(json!({"config": cfg.name, "states": states.len(), "invalid_mutants": table.len(), "node_steps": st}));
    rep.set("configs", serde_json::Value::Array(prev));
    if let Some((_, d, mid, _)) = table.get(table.len() / 2) {
        rep.sample(json!({"mutation": d, "mutant": s.uni.msg(*mid).desc}));
    }
}

pub fn c04(tier: Tier) -> i32 {
    let mut rep = Report::new("C04", tier, "model_checking");
    match tier {
        Tier::Quick => {
            run_node(&mut rep, tier, &[1, 1, 1, 1], 0, 3, 2, false);
            run_node(&mut rep, tier, &[1, 1, 1, 2], 2, 2, 2, true);
            run_node(&mut rep, tier, &[1, 1, 1, 1, 0], 2, 2, 2, true);
        }
        Tier::Thorough => {
            for node in 0..4 {
                run_node(&mut rep, tier, &[1, 1, 1, 1], node, 3, 3, false);
            }
            run_node(&mut rep, tier, &[1, 1, 1, 1], 2, 2, 3, true);
            run_node(&mut rep, tier, &[1, 1, 1, 2], 2, 2, 3, true);
            run_node(&mut rep, tier, &[3, 1, 1, 1], 1, 2, 3, true);
            run_node(&mut rep, tier, &[2, 2, 1, 1], 0, 3, 3, false);
            run_node(&mut rep, tier, &[1, 1, 1, 1, 0], 2, 2, 3, true);
        }
    }
    rep.set("exhaustive", json!(true));
    rep.set("explanation", json!("states = local states of one real node reached by a BFS to the stated depth over valid proposals (any block tree up to round R), TC messages, optionally individual votes/timeouts, and its own timer; for every state x every invalid mutant of every valid menu message: one real delivery (state and outputs must not change) followed by two real follow-up deliveries (the valid original, the timer) whose results must equal the memoised reaction without the mutant; transitions = real node steps. Mutant classes: every signed field altered, signatures transplanted across message / round / block / author / kind and bit-flipped, certificate signers repeated / non-member / dropped below quorum / renamed, certificate rounds and hashes altered, TC entries altered, certificates spliced onto blocks that carry none, unequal-stake committees. An independent reference (strict ed25519 via ed25519-dalek, own quorum arithmetic) classifies each mutant; valid mutants are skipped."));
    rep.assume("mutation distance: one altered field / one transplanted signature / one certificate defect per mutant");
    rep.finish()
}
