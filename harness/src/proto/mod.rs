// Engine `proto`: explicit-state search over the global protocol state in which every local
// transition is an execution of the real consensus node (memoised). See DESIGN.md section 5.1.
pub mod byz;
pub mod chain;
pub mod node;
pub mod rounds;
pub mod solo;
pub mod universe;

use crate::util::{machinery_error, ncpu, Report, Tier};
use crate::world::World;
use consensus::verif::ConsensusMessage;
use node::{Finding, LiveNode, Witness};
use serde_json::{json, Value};
use std::cell::RefCell;
use std::collections::{BTreeMap, HashMap};
use std::sync::atomic::{AtomicBool, AtomicU64, AtomicUsize, Ordering};
use std::sync::{Arc, Barrier, Mutex, RwLock};
use std::time::Instant;
use universe::*;

pub const MAXN: usize = 4;
pub const POOLW: usize = 12; // 768 pool items
pub type PId = u32;

#[derive(Clone, Debug)]
pub struct Cfg {
    pub name: String,
    pub stakes: Vec<u32>,
    pub honest: Vec<usize>,
    pub byz: Option<usize>,
    pub strict: bool,
    pub max_round: u64,
    pub t_budget: u8,
    pub k_budget: u8,
    pub deliver_sync: bool,
    pub canon_certs: bool,
    pub max_states: usize,
    pub wall_cap_s: f64,
    /// pool items are not limited to the width of `GState::pool` (engines with their own state type)
    pub big_pool: bool,
}

#[derive(Clone, Copy, Debug, PartialEq, Eq, Hash)]
pub enum Act {
    Init,
    Deliver(u8, MsgId),
    Timer(u8),
    Byz(MsgId),
    ByzDeliver(u8, MsgId),
}

#[derive(Clone, PartialEq, Eq, Hash, Debug)]
pub struct GState {
    pub locals: [LId; MAXN],
    pub pool: [u64; POOLW],
    pub t_used: u8,
    pub k_used: u8,
}

impl GState {
    fn has(&self, p: PId) -> bool {
        self.pool[(p / 64) as usize] & (1u64 << (p % 64)) != 0
    }
    fn set(&mut self, p: PId) {
        self.pool[(p / 64) as usize] |= 1u64 << (p % 64);
    }
    pub fn pool_items(&self) -> Vec<PId> {
        let mut v = Vec::new();
        for (w, bits) in self.pool.iter().enumerate() {
            let mut b = *bits;
            while b != 0 {
                let t = b.trailing_zeros();
                v.push((w as u32 * 64 + t) as PId);
                b &= b - 1;
            }
        }
        v
    }
}

#[derive(Clone, Copy, PartialEq, Eq, Hash, Debug)]
pub struct SRef {
    shard: u16,
    idx: u32,
}

pub struct LTrans {
    pub next: LId,
    pub out: Vec<PId>,
}

const SHARDS: usize = 64;

struct Shard {
    map: HashMap<GState, u32>,
    recs: Vec<(GState, SRef, Act)>,
}

#[derive(Default, Clone)]
pub struct FindingRec {
    pub finding: Option<Finding>,
    pub node: usize,
    pub history: Vec<Ev>,
    pub global_path: Option<Vec<Act>>,
}

pub struct Search {
    pub cfg: Cfg,
    pub world: Arc<World>,
    pub uni: Universe,
    pub locals: Locals,
    preds: Mutex<HashMap<LId, Option<(LId, Ev)>>>,
    memo: Vec<RwLock<HashMap<(LId, Ev), Arc<LTrans>>>>,
    pitems: RwLock<(HashMap<(MsgId, u8), PId>, Vec<(MsgId, u8)>)>,
    shards: Vec<Mutex<Shard>>,
    pub findings: Mutex<BTreeMap<(String, String), FindingRec>>,
    pub witness_counts: Vec<AtomicU64>,
    pub real_steps: AtomicU64,
    pub replay_steps: AtomicU64,
    pub rebuilds: AtomicU64,
    pub t_take: AtomicU64,
    pub t_apply: AtomicU64,
    pub transitions: AtomicU64,
    compat: Mutex<HashMap<(LId, LId), bool>>,
    id: u64,
}

static SEARCH_ID: AtomicU64 = AtomicU64::new(1);

thread_local! {
    static CACHE: RefCell<(u64, HashMap<LId, LiveNode>)> = RefCell::new((0, HashMap::new()));
}

pub struct Stats {
    pub states: usize,
    pub transitions: u64,
    pub depth: usize,
    pub completed: bool,
    pub cap_hit: Option<String>,
    pub local_states: usize,
    pub real_steps: u64,
    pub replay_steps: u64,
    pub messages: usize,
    pub pool_items: usize,
    pub wall_s: f64,
    pub validated_paths: u64,
    pub validated_steps: u64,
    pub last_level: Vec<SRef>,
}

impl Search {
    pub fn new(cfg: Cfg) -> Self {
        let world = Arc::new(World::new(&cfg.stakes));
        let uni = Universe::new(world.clone(), cfg.canon_certs);
        Self {
            world,
            uni,
            locals: Locals::default(),
            preds: Mutex::new(HashMap::new()),
            memo: (0..SHARDS).map(|_| RwLock::new(HashMap::new())).collect(),
            pitems: RwLock::new((HashMap::new(), Vec::new())),
            shards: (0..SHARDS)
                .map(|_| Mutex::new(Shard { map: HashMap::new(), recs: Vec::new() }))
                .collect(),
            findings: Mutex::new(BTreeMap::new()),
            witness_counts: Witness::names().iter().map(|_| AtomicU64::new(0)).collect(),
            real_steps: AtomicU64::new(0),
            replay_steps: AtomicU64::new(0),
            rebuilds: AtomicU64::new(0),
            t_take: AtomicU64::new(0),
            t_apply: AtomicU64::new(0),
            transitions: AtomicU64::new(0),
            compat: Mutex::new(HashMap::new()),
            id: SEARCH_ID.fetch_add(1, Ordering::Relaxed),
            cfg,
        }
    }

    /// Boot node `i` and return its initial local state.
    pub fn boot_local(&self, i: usize) -> LId {
        let (ln, res) = LiveNode::boot(&self.world, &self.uni, i);
        let lid = self.intern_local(res.key, None, &[]);
        for f in &res.findings {
            self.record_finding(f, i, &[]);
        }
        for (m, d) in &res.out {
            let _ = self.pid(*m, *d);
        }
        self.put_live(lid, ln);
        lid
    }

    /// The longest recorded input history of any local state (for samples).
    pub fn deepest_history(&self) -> Option<Vec<Ev>> {
        let n = self.locals.len();
        let mut best: Option<Vec<Ev>> = None;
        for id in (0..n).rev().take(50) {
            let h = self.history_of(id as LId);
            if best.as_ref().map_or(true, |b| h.len() > b.len()) {
                best = Some(h.into_iter().map(|(_, e)| e).collect());
            }
        }
        best
    }

    pub fn id(&self) -> u64 {
        self.id
    }

    fn pid(&self, m: MsgId, dst: u8) -> PId {
        let dst = if self.cfg.strict { dst } else { 255 };
        if let Some(p) = self.pitems.read().unwrap().0.get(&(m, dst)) {
            return *p;
        }
        let mut w = self.pitems.write().unwrap();
        if let Some(p) = w.0.get(&(m, dst)) {
            return *p;
        }
        let p = w.1.len();
        if !self.cfg.big_pool && p >= POOLW * 64 {
            machinery_error("proto: pool bitset too small (raise POOLW)");
        }
        w.1.push((m, dst));
        w.0.insert((m, dst), p as PId);
        p as PId
    }

    pub fn pitem(&self, p: PId) -> (MsgId, u8) {
        self.pitems.read().unwrap().1[p as usize]
    }

    fn record_finding(&self, f: &Finding, node: usize, history: &[Ev]) {
        let mut fs = self.findings.lock().unwrap();
        let key = (f.property.to_string(), f.signature.clone());
        let better = match fs.get(&key) {
            Some(old) => history.len() < old.history.len(),
            None => true,
        };
        if better {
            fs.insert(
                key,
                FindingRec {
                    finding: Some(f.clone()),
                    node,
                    history: history.to_vec(),
                    global_path: None,
                },
            );
        }
    }

    fn history_of(&self, lid: LId) -> Vec<(LId, Ev)> {
        // chain of (state before, event) from boot to lid
        let preds = self.preds.lock().unwrap();
        let mut chain = Vec::new();
        let mut cur = lid;
        while let Some(Some((p, e))) = preds.get(&cur) {
            chain.push((*p, *e, cur));
            cur = *p;
        }
        chain.reverse();
        chain.into_iter().map(|(p, e, _)| (p, e)).collect()
    }

    fn intern_local(&self, key: LocalKey, pred: Option<(LId, Ev)>, history: &[Ev]) -> LId {
        let id = self.locals.intern(key, || history.to_vec());
        let mut preds = self.preds.lock().unwrap();
        preds.entry(id).or_insert(pred);
        id
    }

    /// A live node in local state `lid`: from the thread's cache, or rebuilt by replaying one
    /// recorded input history, every step of which is re-validated against the memo.
    pub fn take_live(&self, lid: LId) -> LiveNode {
        let cached = CACHE.with(|c| {
            let mut c = c.borrow_mut();
            if c.0 != self.id {
                c.1.clear();
                c.0 = self.id;
            }
            c.1.remove(&lid)
        });
        if let Some(ln) = cached {
            return ln;
        }
        self.rebuilds.fetch_add(1, Ordering::Relaxed);
        let info = self.locals.get(lid);
        let idx = info.key.node as usize;
        let chain = self.history_of(lid);
        let (mut ln, boot_res) = LiveNode::boot(&self.world, &self.uni, idx);
        let mut cur = self.locals.intern(boot_res.key, Vec::new);
        for (before, ev) in chain {
            if cur != before {
                machinery_error(&format!(
                    "proto: replay divergence on node {} (state {} expected {}): nondeterminism or incomplete local key",
                    idx, cur, before
                ));
            }
            let res = ln.apply(&self.uni, ev);
            self.replay_steps.fetch_add(1, Ordering::Relaxed);
            cur = self.locals.intern(res.key, || ln.history.clone());
        }
        if cur != lid {
            machinery_error(&format!(
                "proto: replay of node {} history ended in state {} instead of {}: nondeterminism or incomplete local key",
                idx, cur, lid
            ));
        }
        ln
    }

    pub fn put_live(&self, lid: LId, ln: LiveNode) {
        CACHE.with(|c| {
            let mut c = c.borrow_mut();
            if c.1.len() >= 40 {
                let k = *c.1.keys().next().unwrap();
                c.1.remove(&k);
            }
            c.1.insert(lid, ln);
        });
    }

    pub fn ltrans(&self, lid: LId, ev: Ev) -> Arc<LTrans> {
        let shard = &self.memo[(crate::util::hash64(&(lid, ev)) as usize) % SHARDS];
        if let Some(t) = shard.read().unwrap().get(&(lid, ev)) {
            return t.clone();
        }
        let t0 = Instant::now();
        let mut ln = self.take_live(lid);
        let t1 = Instant::now();
        let res = ln.apply(&self.uni, ev);
        self.t_take.fetch_add((t1 - t0).as_micros() as u64, Ordering::Relaxed);
        self.t_apply.fetch_add(t1.elapsed().as_micros() as u64, Ordering::Relaxed);
        self.real_steps.fetch_add(1, Ordering::Relaxed);
        let next = self.intern_local(res.key, Some((lid, ev)), &ln.history);
        for f in &res.findings {
            self.record_finding(f, ln.idx, &ln.history);
        }
        for (i, b) in res.witness.flags().iter().enumerate() {
            if *b {
                self.witness_counts[i].fetch_add(1, Ordering::Relaxed);
            }
        }
        // messages for rounds beyond the bound are never deliverable: they need no pool slot
        let out: Vec<PId> = res
            .out
            .iter()
            .filter(|(m, _)| self.uni.msg(*m).round <= self.cfg.max_round + 1)
            .map(|(m, d)| self.pid(*m, *d))
            .collect();
        self.put_live(next, ln);
        let t = Arc::new(LTrans { next, out });
        shard.write().unwrap().entry((lid, ev)).or_insert(t).clone()
    }

    fn shard_of(g: &GState) -> usize {
        (crate::util::hash64(g) as usize) % SHARDS
    }

    /// Insert a state; returns its reference if new.
    fn insert(&self, g: &GState, pred: SRef, act: Act) -> Option<SRef> {
        let s = Self::shard_of(g);
        let mut sh = self.shards[s].lock().unwrap();
        if sh.map.contains_key(g) {
            return None;
        }
        let idx = sh.recs.len() as u32;
        sh.map.insert(g.clone(), idx);
        sh.recs.push((g.clone(), pred, act));
        Some(SRef { shard: s as u16, idx })
    }

    pub fn state(&self, r: SRef) -> (GState, SRef, Act) {
        self.shards[r.shard as usize].lock().unwrap().recs[r.idx as usize].clone()
    }

    pub fn path_to(&self, r: SRef) -> Vec<Act> {
        let mut acts = Vec::new();
        let mut cur = r;
        loop {
            let (_, pred, act) = self.state(cur);
            if act == Act::Init {
                break;
            }
            acts.push(act);
            cur = pred;
        }
        acts.reverse();
        acts
    }

    pub fn describe_act(&self, a: &Act) -> String {
        match a {
            Act::Init => "init".into(),
            Act::Deliver(i, m) => format!("deliver to n{}: {}", i, self.uni.msg(*m).desc),
            Act::Timer(i) => format!("timer expires at n{}", i),
            Act::Byz(m) => format!("byzantine n{} creates {}", self.cfg.byz.unwrap_or(9), self.uni.msg(*m).desc),
            Act::ByzDeliver(i, m) => format!("byzantine n{} creates and sends to n{}: {}", self.cfg.byz.unwrap_or(9), i, self.uni.msg(*m).desc),
        }
    }

    pub fn raw_ev(&self, e: &Ev) -> String {
        match e {
            Ev::Timer => "timer".to_string(),
            Ev::Batch(k) => format!("batch:{}", k),
            Ev::Digest(k) => format!("digest:{}", k),
            Ev::Deliver(m) => crate::util::hex(&self.uni.msg(*m).bytes),
        }
    }

    pub fn describe_ev(&self, e: &Ev) -> String {
        match e {
            Ev::Deliver(m) => format!("deliver {}", self.uni.msg(*m).desc),
            Ev::Timer => "timer expires".into(),
            Ev::Batch(k) => format!("batch {} arrives in the store", k),
            Ev::Digest(k) => format!("own mempool hands digest {} to the proposer", k),
        }
    }

    /// C01: all blocks committed by the two local states lie on one chain.
    fn compatible(&self, a: LId, b: LId) -> bool {
        let key = if a <= b { (a, b) } else { (b, a) };
        if let Some(v) = self.compat.lock().unwrap().get(&key) {
            return *v;
        }
        let ia = self.locals.get(a);
        let ib = self.locals.get(b);
        let mut ok = true;
        'outer: for x in &ia.key.hist.commits {
            for y in &ib.key.hist.commits {
                if !(self.uni.is_ancestor(x, y) || self.uni.is_ancestor(y, x)) {
                    ok = false;
                    break 'outer;
                }
            }
        }
        self.compat.lock().unwrap().insert(key, ok);
        ok
    }

    fn check_agreement(&self, g: &GState, changed: usize, pred: SRef, act: Act) {
        for &j in &self.cfg.honest {
            if j == changed {
                continue;
            }
            if !self.compatible(g.locals[changed], g.locals[j]) {
                let mut path = self.path_to(pred);
                path.push(act);
                let f = Finding {
                    property: "C01",
                    signature: "agreement:conflicting-commits".into(),
                    what: format!(
                        "honest nodes n{} and n{} committed blocks that are not on one chain",
                        changed, j
                    ),
                };
                let mut fs = self.findings.lock().unwrap();
                let key = (f.property.to_string(), f.signature.clone());
                let better = match fs.get(&key) {
                    Some(old) => old.global_path.as_ref().map_or(true, |p| path.len() < p.len()),
                    None => true,
                };
                if better {
                    fs.insert(
                        key,
                        FindingRec { finding: Some(f), node: changed, history: Vec::new(), global_path: Some(path) },
                    );
                }
            }
        }
    }

    fn deliverable(&self, i: usize, p: PId) -> Option<MsgId> {
        let (m, dst) = self.pitem(p);
        if self.cfg.strict && dst as usize != i {
            return None;
        }
        let info = self.uni.msg(m);
        if info.round > self.cfg.max_round {
            return None;
        }
        if !self.cfg.deliver_sync && matches!(info.msg, ConsensusMessage::SyncRequest(..)) {
            return None;
        }
        Some(m)
    }

    fn successors(&self, g: &GState, gref: SRef, out: &mut Vec<(GState, SRef)>) {
        let items = g.pool_items();
        for &i in &self.cfg.honest {
            let lid = g.locals[i];
            let mut events: Vec<(Ev, Act)> = Vec::new();
            let mut seen = std::collections::HashSet::new();
            for &p in &items {
                if let Some(m) = self.deliverable(i, p) {
                    if seen.insert(m) {
                        events.push((Ev::Deliver(m), Act::Deliver(i as u8, m)));
                    }
                }
            }
            if g.t_used < self.cfg.t_budget {
                events.push((Ev::Timer, Act::Timer(i as u8)));
            }
            for (ev, act) in events {
                let tr = self.ltrans(lid, ev);
                self.transitions.fetch_add(1, Ordering::Relaxed);
                let mut s = g.clone();
                s.locals[i] = tr.next;
                for p in &tr.out {
                    s.set(*p);
                }
                if ev == Ev::Timer {
                    s.t_used += 1;
                }
                if s == *g {
                    continue;
                }
                if let Some(r) = self.insert(&s, gref, act) {
                    if tr.next != lid {
                        self.check_agreement(&s, i, gref, act);
                    }
                    out.push((s, r));
                }
            }
        }
        if let Some(_b) = self.cfg.byz {
            if g.k_used < self.cfg.k_budget {
                // A creation commutes with everything before its first delivery (the pool only
                // grows, so whatever is creatable now stays creatable): it is explored only
                // fused with its first delivery.
                for &m in byz::menu(self, g).iter() {
                    let p = self.pid(m, 255);
                    if g.has(p) {
                        continue;
                    }
                    if self.uni.msg(m).round > self.cfg.max_round {
                        continue;
                    }
                    for &i in &self.cfg.honest {
                        let lid = g.locals[i];
                        let tr = self.ltrans(lid, Ev::Deliver(m));
                        self.transitions.fetch_add(1, Ordering::Relaxed);
                        if tr.next == lid && tr.out.iter().all(|q| g.has(*q)) {
                            continue; // no effect on i: creating it now is pointless
                        }
                        let mut s = g.clone();
                        s.set(p);
                        s.k_used += 1;
                        s.locals[i] = tr.next;
                        for q in &tr.out {
                            s.set(*q);
                        }
                        let act = Act::ByzDeliver(i as u8, m);
                        if let Some(r) = self.insert(&s, gref, act) {
                            if tr.next != lid {
                                self.check_agreement(&s, i, gref, act);
                            }
                            out.push((s, r));
                        }
                    }
                }
            }
        }
    }

    pub fn run(&self) -> Stats {
        let t0 = Instant::now();
        // initial state: boot every honest node
        let mut g0 = GState { locals: [0; MAXN], pool: [0; POOLW], t_used: 0, k_used: 0 };
        for &i in &self.cfg.honest {
            let (ln, res) = LiveNode::boot(&self.world, &self.uni, i);
            let lid = self.intern_local(res.key, None, &[]);
            for f in &res.findings {
                self.record_finding(f, i, &[]);
            }
            g0.locals[i] = lid;
            for (m, d) in &res.out {
                g0.set(self.pid(*m, *d));
            }
            drop(ln);
        }
        if self.cfg.byz.is_some() {
            for m in byz::free_messages(self, &g0) {
                g0.set(self.pid(m, 255));
            }
        }
        let dummy = SRef { shard: 0, idx: 0 };
        let r0 = self.insert(&g0, dummy, Act::Init).unwrap();
        let threads = ncpu();
        let frontier: RwLock<Vec<(GState, SRef)>> = RwLock::new(vec![(g0, r0)]);
        let next_idx = AtomicUsize::new(0);
        let outputs: Mutex<Vec<Vec<(GState, SRef)>>> = Mutex::new(Vec::new());
        let done = AtomicBool::new(false);
        let b1 = Barrier::new(threads + 1);
        let b2 = Barrier::new(threads + 1);
        let mut depth = 0usize;
        let mut cap_hit = None;
        let mut completed = true;
        let mut last_level: Vec<SRef> = vec![r0];
        std::thread::scope(|sc| {
            for _ in 0..threads {
                sc.spawn(|| loop {
                    b1.wait();
                    if done.load(Ordering::SeqCst) {
                        CACHE.with(|c| c.borrow_mut().1.clear());
                        break;
                    }
                    let mut local_out = Vec::new();
                    {
                        let fr = frontier.read().unwrap();
                        loop {
                            let i = next_idx.fetch_add(8, Ordering::Relaxed);
                            if i >= fr.len() {
                                break;
                            }
                            for k in i..std::cmp::min(i + 8, fr.len()) {
                                let (g, r) = &fr[k];
                                self.successors(g, *r, &mut local_out);
                            }
                        }
                    }
                    outputs.lock().unwrap().push(local_out);
                    b2.wait();
                });
            }
            loop {
                let total: usize = self.shards.iter().map(|s| s.lock().unwrap().recs.len()).sum();
                if frontier.read().unwrap().is_empty() {
                    break;
                }
                if total >= self.cfg.max_states {
                    cap_hit = Some(format!("state cap {} reached at depth {}", self.cfg.max_states, depth));
                    completed = false;
                    break;
                }
                if t0.elapsed().as_secs_f64() > self.cfg.wall_cap_s {
                    cap_hit = Some(format!("wall cap {}s reached at depth {}", self.cfg.wall_cap_s, depth));
                    completed = false;
                    break;
                }
                next_idx.store(0, Ordering::SeqCst);
                b1.wait();
                b2.wait();
                let outs = std::mem::take(&mut *outputs.lock().unwrap());
                let mut next: Vec<(GState, SRef)> = outs.into_iter().flatten().collect();
                // deterministic order of the next frontier
                next.sort_by(|a, b| (a.1.shard, a.1.idx).cmp(&(b.1.shard, b.1.idx)));
                if !next.is_empty() {
                    depth += 1;
                    last_level = next.iter().map(|x| x.1).collect();
                }
                *frontier.write().unwrap() = next;
            }
            done.store(true, Ordering::SeqCst);
            b1.wait();
        });
        let states: usize = self.shards.iter().map(|s| s.lock().unwrap().recs.len()).sum();
        if let Ok(path) = std::env::var("HSV_DUMP") {
            let mut lines = Vec::new();
            for sh in &self.memo {
                for ((lid, ev), tr) in sh.read().unwrap().iter() {
                    let k0 = crate::util::hash64(&self.locals.get(*lid).key);
                    let k1 = crate::util::hash64(&self.locals.get(tr.next).key);
                    let mut outs: Vec<String> = tr.out.iter().map(|p| { let (m, d) = self.pitem(*p); format!("{}->{}", self.uni.msg(m).desc, d) }).collect();
                    outs.sort();
                    lines.push(format!("{:016x} n{} | {} | {:016x} | {}", k0, self.locals.get(*lid).key.node, self.describe_ev(ev), k1, outs.join(" ; ")));
                }
            }
            lines.sort();
            std::fs::write(path, lines.join("\n")).unwrap();
        }
        if std::env::var("HSV_DEBUG").is_ok() {
            eprintln!("debug: rebuilds={} t_take={}ms t_apply={}ms", self.rebuilds.load(Ordering::Relaxed), self.t_take.load(Ordering::Relaxed) / 1000, self.t_apply.load(Ordering::Relaxed) / 1000);
        }
        Stats {
            states,
            transitions: self.transitions.load(Ordering::Relaxed),
            depth,
            completed,
            cap_hit,
            local_states: self.locals.len(),
            real_steps: self.real_steps.load(Ordering::Relaxed),
            replay_steps: self.replay_steps.load(Ordering::Relaxed),
            messages: self.uni.n_msgs(),
            pool_items: self.pitems.read().unwrap().1.len(),
            wall_s: t0.elapsed().as_secs_f64(),
            validated_paths: 0,
            validated_steps: 0,
            last_level,
        }
    }

    /// Re-execute a global path on a live multi-node system (all honest nodes real and alive at
    /// once, the harness as network) and compare every node's key with the recorded local state.
    pub fn validate_path(&self, target: SRef) -> Result<u64, String> {
        let path = self.path_to(target);
        let mut live: HashMap<usize, LiveNode> = HashMap::new();
        let mut cur: HashMap<usize, LId> = HashMap::new();
        for &i in &self.cfg.honest {
            let (ln, res) = LiveNode::boot(&self.world, &self.uni, i);
            let lid = self.locals.intern(res.key, Vec::new);
            cur.insert(i, lid);
            live.insert(i, ln);
        }
        let mut steps = 0;
        // walk the recorded states along the path
        let mut refs = vec![target];
        let mut c = target;
        loop {
            let (_, pred, act) = self.state(c);
            if act == Act::Init {
                break;
            }
            refs.push(pred);
            c = pred;
        }
        refs.reverse();
        for (k, act) in path.iter().enumerate() {
            let (expected, _, _) = self.state(refs[k + 1]);
            match act {
                Act::Deliver(i, m) | Act::ByzDeliver(i, m) => {
                    let ln = live.get_mut(&(*i as usize)).unwrap();
                    let res = ln.apply(&self.uni, Ev::Deliver(*m));
                    cur.insert(*i as usize, self.locals.intern(res.key, || ln.history.clone()));
                    for (mm, d) in &res.out {
                        if !expected.has(self.pid(*mm, *d)) {
                            return Err(format!("step {}: live node emitted a message not in the recorded pool", k));
                        }
                    }
                    steps += 1;
                }
                Act::Timer(i) => {
                    let ln = live.get_mut(&(*i as usize)).unwrap();
                    let res = ln.apply(&self.uni, Ev::Timer);
                    cur.insert(*i as usize, self.locals.intern(res.key, || ln.history.clone()));
                    for (mm, d) in &res.out {
                        if !expected.has(self.pid(*mm, *d)) {
                            return Err(format!("step {}: live node emitted a message not in the recorded pool", k));
                        }
                    }
                    steps += 1;
                }
                Act::Byz(_) | Act::Init => {}
            }
            for &i in &self.cfg.honest {
                if expected.locals[i] != cur[&i] {
                    return Err(format!(
                        "step {} ({}): node n{} is in local state {} on the live system but {} in the model",
                        k,
                        self.describe_act(act),
                        i,
                        cur[&i],
                        expected.locals[i]
                    ));
                }
            }
        }
        Ok(steps)
    }
}

// ---------------------------------------------------------------------------------------------
// Configurations and per-property entry points
// ---------------------------------------------------------------------------------------------

pub fn clear_thread_cache() {
    CACHE.with(|c| c.borrow_mut().1.clear());
}

pub fn cfg_h4(r: u64, t: u8, tier: Tier) -> Cfg {
    Cfg {
        name: format!("H4(R={},T={})", r, t),
        stakes: vec![1, 1, 1, 1],
        honest: vec![0, 1, 2, 3],
        byz: None,
        strict: true,
        max_round: r,
        t_budget: t,
        k_budget: 0,
        deliver_sync: true,
        canon_certs: true,
        max_states: tier.pick(3_000_000, 20_000_000),
        wall_cap_s: tier.pick(40.0, 240.0),
        big_pool: false,
    }
}

pub fn cfg_h3c(crashed: usize, r: u64, t: u8, tier: Tier) -> Cfg {
    Cfg {
        name: format!("H3c(crashed=n{},R={},T={})", crashed, r, t),
        stakes: vec![1, 1, 1, 1],
        honest: (0..4).filter(|i| *i != crashed).collect(),
        byz: None,
        strict: true,
        max_round: r,
        t_budget: t,
        k_budget: 0,
        deliver_sync: true,
        canon_certs: true,
        max_states: tier.pick(3_000_000, 20_000_000),
        wall_cap_s: tier.pick(40.0, 240.0),
        big_pool: false,
    }
}

pub fn cfg_b4(byz: usize, r: u64, t: u8, k: u8, tier: Tier) -> Cfg {
    Cfg {
        name: format!("B4(byz=n{},R={},T={},K={})", byz, r, t, k),
        stakes: vec![1, 1, 1, 1],
        honest: (0..4).filter(|i| *i != byz).collect(),
        byz: Some(byz),
        strict: false,
        max_round: r,
        t_budget: t,
        k_budget: k,
        deliver_sync: false,
        canon_certs: true,
        max_states: tier.pick(3_000_000, 20_000_000),
        wall_cap_s: tier.pick(40.0, 240.0),
        big_pool: false,
    }
}

pub fn properties_of_proto() -> Vec<&'static str> {
    vec!["C01", "C02", "C03", "C04", "C05", "C09", "C10", "C19", "PANIC"]
}

/// Run a list of configurations; fold results for `property` into the report.
pub fn run_configs(rep: &mut Report, property: &str, cfgs: Vec<Cfg>, validate: usize) {
    let mut table = Vec::new();
    let mut witness_total: BTreeMap<&'static str, u64> = BTreeMap::new();
    for cfg in cfgs {
        let s = Search::new(cfg.clone());
        let mut st = s.run();
        // end-to-end validation on the live multi-node system
        let n = st.last_level.len();
        let picks: Vec<SRef> = if n == 0 {
            vec![]
        } else {
            (0..validate.min(n)).map(|k| st.last_level[k * n / validate.min(n)]).collect()
        };
        for p in picks {
            match s.validate_path(p) {
                Ok(steps) => {
                    st.validated_paths += 1;
                    st.validated_steps += steps;
                }
                Err(e) => machinery_error(&format!("proto {}: live replay of a model path diverged: {}", cfg.name, e)),
            }
        }
        for ((prop, sig), rec) in s.findings.lock().unwrap().iter() {
            let f = rec.finding.as_ref().unwrap();
            let relevant = prop == property || (prop == "PANIC");
            if !relevant {
                rep.add("other_property_findings_seen", 1);
                continue;
            }
            let replay = match &rec.global_path {
                Some(path) => json!({
                    "engine": "proto", "config": cfg.name, "kind": "global", "honest": cfg.honest,
                    "events": path.iter().map(|a| s.describe_act(a)).collect::<Vec<_>>(),
                    "events_raw": path.iter().map(|a| match a {
                        Act::Deliver(i, m) | Act::ByzDeliver(i, m) => json!({"node": i, "deliver": crate::util::hex(&s.uni.msg(*m).bytes)}),
                        Act::Timer(i) => json!({"node": i, "timer": true}),
                        _ => json!({}),
                    }).collect::<Vec<_>>(),
                }),
                None => json!({
                    "engine": "proto", "config": cfg.name, "kind": "local", "node": rec.node,
                    "events": rec.history.iter().map(|e| s.describe_ev(e)).collect::<Vec<_>>(),
                    "events_raw": rec.history.iter().map(|e| s.raw_ev(e)).collect::<Vec<_>>(),
                }),
            };
            rep.violation(sig.clone(), format!("[{}] {}", cfg.name, f.what), replay);
        }
        let names = Witness::names();
        let mut wit = serde_json::Map::new();
        for (i, n) in names.iter().enumerate() {
            let c = s.witness_counts[i].load(Ordering::Relaxed);
            wit.insert(n.to_string(), json!(c));
            *witness_total.entry(n).or_insert(0) += c;
        }
        println!(
            "  {}: states={} transitions={} depth={} local_states={} real_steps={} replays={} msgs={} wall={:.1}s{}",
            cfg.name,
            st.states,
            st.transitions,
            st.depth,
            st.local_states,
            st.real_steps,
            st.replay_steps,
            st.messages,
            st.wall_s,
            st.cap_hit.as_ref().map(|c| format!(" CAPPED: {}", c)).unwrap_or_default()
        );
        rep.add("states", st.states as u64);
        rep.add("transitions", st.transitions);
        rep.add("local_states", st.local_states as u64);
        rep.add("real_node_steps", st.real_steps);
        rep.add("replayed_node_steps_revalidated", st.replay_steps);
        rep.add("live_system_paths_replayed", st.validated_paths);
        rep.add("traces_validated_against_impl", st.real_steps + st.replay_steps + st.validated_steps);
        if rep.samples.len() < 3 {
            if let Some(r) = st.last_level.first() {
                let path = s.path_to(*r);
                rep.sample(json!({"config": cfg.name, "one_deepest_path": path.iter().map(|a| s.describe_act(a)).collect::<Vec<_>>()}));
            }
        }
        table.push(json!({
            "config": cfg.name, "states": st.states, "transitions": st.transitions, "depth": st.depth,
            "completed": st.completed, "cap_hit": st.cap_hit, "local_states": st.local_states,
            "real_node_steps": st.real_steps, "messages": st.messages, "pool_items": st.pool_items,
            "wall_s": st.wall_s, "witnesses": Value::Object(wit),
            "live_paths_replayed": st.validated_paths,
        }));
    }
    let mut all_complete = true;
    for t in &table {
        if t["completed"] != json!(true) {
            all_complete = false;
        }
    }
    let mut prev: Vec<Value> = rep.coverage.get("configs").and_then(|v| v.as_array().cloned()).unwrap_or_default();
    prev.extend(table);
    rep.set("configs", Value::Array(prev));
    let was = rep.coverage.get("exhaustive").and_then(|v| v.as_bool()).unwrap_or(true);
    rep.set("exhaustive", json!(was && all_complete));
    let mut w = serde_json::Map::new();
    for (k, v) in witness_total {
        let old = rep.coverage.get("witnesses").and_then(|x| x.get(k)).and_then(|x| x.as_u64()).unwrap_or(0);
        w.insert(k.to_string(), json!(v + old));
    }
    rep.set("witnesses", Value::Object(w));
}

pub fn interned_messages_for_c20(_tier: Tier) -> Vec<ConsensusMessage> {
    let s = Search::new(cfg_h4(3, 1, Tier::Quick));
    let _ = s.run();
    s.uni.all_msgs().iter().map(|m| bincode::deserialize(&m.bytes).unwrap()).collect()
}
