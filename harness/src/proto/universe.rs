// Interning of messages, blocks and local states for the `proto` engine.
use crate::world::{short, World};
use consensus::verif::{ConsensusMessage, CoreSnapshot, Round};
use consensus::{Block, QC, TC};
use crypto::{Digest, Hash as _, PublicKey};
use std::collections::{BTreeMap, BTreeSet, HashMap};
use std::sync::{Arc, Mutex, RwLock};

pub type MsgId = u32;
pub type LId = u32;

/// One event delivered to one node.
#[derive(Clone, Copy, Debug, PartialEq, Eq, Hash, PartialOrd, Ord)]
pub enum Ev {
    Deliver(MsgId),
    Timer,
    /// batch k becomes available in the node's store (what the mempool's processor does)
    Batch(u8),
    /// the node's own mempool hands digest k to the proposer (payload of its next proposal)
    Digest(u8),
}

fn canon_qc(qc: &QC) -> QC {
    let mut q = qc.clone();
    q.votes.sort_by(|a, b| a.0.cmp(&b.0));
    q
}
fn canon_tc(tc: &TC) -> TC {
    let mut t = tc.clone();
    t.votes.sort_by(|a, b| a.0.cmp(&b.0));
    t
}

/// Canonical form used as message identity: vote lists inside certificates are sorted by signer
/// (certificates are sets of signatures as far as every property is concerned).
pub fn canon_msg(m: &ConsensusMessage, canon_certs: bool) -> Vec<u8> {
    if !canon_certs {
        return bincode::serialize(m).unwrap();
    }
    let c = match m {
        ConsensusMessage::Propose(b) => {
            let mut b = b.clone();
            b.qc = canon_qc(&b.qc);
            b.tc = b.tc.as_ref().map(canon_tc);
            ConsensusMessage::Propose(b)
        }
        ConsensusMessage::Timeout(t) => {
            let mut t = t.clone();
            t.high_qc = canon_qc(&t.high_qc);
            ConsensusMessage::Timeout(t)
        }
        ConsensusMessage::TC(tc) => ConsensusMessage::TC(canon_tc(tc)),
        ConsensusMessage::Vote(v) => ConsensusMessage::Vote(v.clone()),
        ConsensusMessage::SyncRequest(d, k) => ConsensusMessage::SyncRequest(d.clone(), *k),
    };
    bincode::serialize(&c).unwrap()
}

pub struct MsgInfo {
    pub bytes: Vec<u8>,
    pub msg: ConsensusMessage,
    pub round: Round,
    pub desc: String,
}

#[derive(Default)]
struct UniInner {
    by_canon: HashMap<Vec<u8>, MsgId>,
    msgs: Vec<Arc<MsgInfo>>,
    blocks: HashMap<Digest, Arc<Block>>,
    /// digest signed by a vote for the block -> block
    by_vote_digest: HashMap<Digest, Arc<Block>>,
}

/// Global intern tables (shared by all worker threads).
pub struct Universe {
    pub world: Arc<World>,
    pub canon_certs: bool,
    inner: RwLock<UniInner>,
}

impl Universe {
    pub fn new(world: Arc<World>, canon_certs: bool) -> Self {
        Self {
            world,
            canon_certs,
            inner: RwLock::new(UniInner::default()),
        }
    }

    pub fn who(&self, k: &PublicKey) -> String {
        match self.world.index_of(k) {
            Some(i) => format!("n{}", i),
            None => "n?".to_string(),
        }
    }

    pub fn desc_qc(&self, qc: &QC) -> String {
        if crate::world::is_genesis_qc(qc) {
            return "QC[genesis]".into();
        }
        let mut s: Vec<String> = qc.votes.iter().map(|(k, _)| self.who(k)).collect();
        s.sort();
        format!("QC[r{} {} by {}]", qc.round, short(&qc.hash), s.join(","))
    }

    pub fn desc_tc(&self, tc: &TC) -> String {
        let mut s: Vec<String> = tc.votes.iter().map(|(k, _, h)| format!("{}:{}", self.who(k), h)).collect();
        s.sort();
        format!("TC[r{} {{{}}}]", tc.round, s.join(","))
    }

    pub fn desc_block(&self, b: &Block) -> String {
        format!(
            "B[{} r{} by {} parent={} {}{}{}]",
            short(&b.digest()),
            b.round,
            self.who(&b.author),
            if crate::world::is_genesis_qc(&b.qc) { "genesis".to_string() } else { short(&b.qc.hash) },
            self.desc_qc(&b.qc),
            b.tc.as_ref().map(|t| format!(" {}", self.desc_tc(t))).unwrap_or_default(),
            if b.payload.is_empty() { String::new() } else { format!(" payload={}", b.payload.len()) },
        )
    }

    pub fn describe(&self, m: &ConsensusMessage) -> String {
        match m {
            ConsensusMessage::Propose(b) => format!("Propose({})", self.desc_block(b)),
            ConsensusMessage::Vote(v) => format!("Vote(r{} {} by {})", v.round, short(&v.hash), self.who(&v.author)),
            ConsensusMessage::Timeout(t) => format!("Timeout(r{} by {} {})", t.round, self.who(&t.author), self.desc_qc(&t.high_qc)),
            ConsensusMessage::TC(tc) => self.desc_tc(tc),
            ConsensusMessage::SyncRequest(d, k) => format!("SyncRequest({} from {})", short(d), self.who(k)),
        }
    }

    pub fn intern(&self, m: ConsensusMessage) -> MsgId {
        let canon = canon_msg(&m, self.canon_certs);
        if let Some(id) = self.inner.read().unwrap().by_canon.get(&canon) {
            return *id;
        }
        let mut inner = self.inner.write().unwrap();
        if let Some(id) = inner.by_canon.get(&canon) {
            return *id;
        }
        let id = inner.msgs.len() as MsgId;
        let round = match &m {
            ConsensusMessage::Propose(b) => b.round,
            ConsensusMessage::Vote(v) => v.round,
            ConsensusMessage::Timeout(t) => t.round,
            ConsensusMessage::TC(tc) => tc.round,
            ConsensusMessage::SyncRequest(..) => 0,
        };
        if let ConsensusMessage::Propose(b) = &m {
            if !inner.blocks.contains_key(&b.digest()) {
                let a = Arc::new(b.clone());
                inner.by_vote_digest.insert(QC { hash: b.digest(), round: b.round, votes: Vec::new() }.digest(), a.clone());
                inner.blocks.insert(b.digest(), a);
            }
        }
        let desc = self.describe(&m);
        let bytes = bincode::serialize(&m).unwrap();
        inner.by_canon.insert(canon, id);
        inner.msgs.push(Arc::new(MsgInfo { bytes, msg: m, round, desc }));
        id
    }

    pub fn msg(&self, id: MsgId) -> Arc<MsgInfo> {
        self.inner.read().unwrap().msgs[id as usize].clone()
    }

    pub fn n_msgs(&self) -> usize {
        self.inner.read().unwrap().msgs.len()
    }

    pub fn block(&self, d: &Digest) -> Option<Arc<Block>> {
        self.inner.read().unwrap().blocks.get(d).cloned()
    }

    pub fn note_block(&self, b: &Block) {
        let d = b.digest();
        if self.inner.read().unwrap().blocks.contains_key(&d) {
            return;
        }
        let mut inner = self.inner.write().unwrap();
        if !inner.blocks.contains_key(&d) {
            let a = Arc::new(b.clone());
            inner.by_vote_digest.insert(QC { hash: d.clone(), round: b.round, votes: Vec::new() }.digest(), a.clone());
            inner.blocks.insert(d, a);
        }
    }

    pub fn block_by_vote_digest(&self, vd: &Digest) -> Option<Arc<Block>> {
        self.inner.read().unwrap().by_vote_digest.get(vd).cloned()
    }

    pub fn all_blocks(&self) -> Vec<Arc<Block>> {
        self.inner.read().unwrap().blocks.values().cloned().collect()
    }

    pub fn all_msgs(&self) -> Vec<Arc<MsgInfo>> {
        self.inner.read().unwrap().msgs.clone()
    }

    /// Is `a` an ancestor of (or equal to) `b` following parent links? The genesis placeholder
    /// (the default block) is the root of every chain.
    pub fn is_ancestor(&self, a: &Digest, b: &Digest) -> bool {
        let genesis = Block::genesis().digest();
        if *a == genesis {
            return true;
        }
        let mut cur = b.clone();
        for _ in 0..10_000 {
            if cur == *a {
                return true;
            }
            if cur == genesis {
                return false;
            }
            match self.block(&cur) {
                Some(blk) => {
                    if crate::world::is_genesis_qc(&blk.qc) {
                        return false;
                    }
                    cur = blk.qc.hash.clone();
                }
                None => return false,
            }
        }
        false
    }
}

/// History variables the monitors need (part of the local state key).
#[derive(Clone, Debug, Default, PartialEq, Eq, Hash, PartialOrd, Ord)]
pub struct Hist {
    /// round -> block voted (wire votes and own votes counted by the node itself as next leader)
    pub votes: BTreeMap<Round, Digest>,
    /// rounds for which a Timeout was emitted
    pub timeouts: BTreeSet<Round>,
    /// blocks handed to the application, in order
    pub commits: Vec<Digest>,
    /// own proposals: round -> block digests
    pub proposals: BTreeMap<Round, BTreeSet<Digest>>,
    pub max_qc_sent: Round,
    pub max_qc_voted: Round,
    /// reference aggregator: (round, block hash) -> voters delivered (incl. self)
    pub ref_votes: BTreeMap<(Round, Digest), BTreeSet<usize>>,
    /// reference aggregator: round -> author -> claimed high qc round
    pub ref_timeouts: BTreeMap<Round, BTreeMap<usize, Round>>,
    /// certificates assembled by this node
    pub assembled_qcs: BTreeSet<(Round, Digest)>,
    pub assembled_tcs: BTreeSet<Round>,
}

#[derive(Clone, Debug, PartialEq, Eq, Hash)]
pub struct LocalKey {
    pub node: u8,
    pub snap: CoreSnapshot,
    pub stored: BTreeMap<Digest, u64>,
    pub parked: BTreeMap<Digest, u64>,
    /// payload batches present in the store
    pub batches: BTreeSet<u8>,
    /// own-mempool digests handed to the proposer and not yet seen in one of its proposals
    pub pending_digests: BTreeSet<u8>,
    /// statically unacceptable blocks to which the node nevertheless reacted
    pub odd: BTreeSet<Digest>,
    pub hist: Hist,
    /// the node panicked at some point (sticky)
    pub panicked: bool,
}

pub fn canon_snapshot(s: &CoreSnapshot, canon_certs: bool) -> CoreSnapshot {
    let mut s = s.clone();
    if canon_certs {
        s.high_qc_signers.sort();
        for v in s.votes.iter_mut() {
            v.3.sort();
        }
        for t in s.timeouts.iter_mut() {
            t.2.sort();
        }
    }
    s
}

pub struct LocalInfo {
    pub key: LocalKey,
    /// one input history that reaches this state from boot
    pub history: Arc<Vec<Ev>>,
}

#[derive(Default)]
struct LocalsInner {
    by_key: HashMap<LocalKey, LId>,
    infos: Vec<Arc<LocalInfo>>,
}

#[derive(Default)]
pub struct Locals {
    inner: Mutex<LocalsInner>,
}

impl Locals {
    pub fn intern(&self, key: LocalKey, history: impl FnOnce() -> Vec<Ev>) -> LId {
        let mut inner = self.inner.lock().unwrap();
        if let Some(id) = inner.by_key.get(&key) {
            return *id;
        }
        let id = inner.infos.len() as LId;
        inner.by_key.insert(key.clone(), id);
        inner.infos.push(Arc::new(LocalInfo {
            key,
            history: Arc::new(history()),
        }));
        id
    }
    pub fn get(&self, id: LId) -> Arc<LocalInfo> {
        self.inner.lock().unwrap().infos[id as usize].clone()
    }
    pub fn len(&self) -> usize {
        self.inner.lock().unwrap().infos.len()
    }
}
