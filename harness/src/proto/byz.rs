// Byzantine member of the `proto` engine (menu of correctly self-signed misbehaviour).
use super::universe::MsgId;
use super::{GState, Search};

pub fn free_messages(_s: &Search, _g: &GState) -> Vec<MsgId> {
    Vec::new()
}

pub fn menu(_s: &Search, _g: &GState) -> Vec<MsgId> {
    Vec::new()
}
