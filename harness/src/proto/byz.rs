// Byzantine member of the `proto` engine: a menu of misbehaviour that is correctly signed by the
// Byzantine authority's own key and built only from what is on the wire (honest signatures are
// never forged: certificates are assembled from the honest votes/timeouts present in the pool).
use super::node::variant_payload;
use super::universe::MsgId;
use super::{GState, Search, POOLW};
use crate::world::is_genesis_qc;
use consensus::verif::{ConsensusMessage, Round, Timeout, Vote};
use consensus::{Block, QC, TC};
use crypto::{Digest, Hash as _, PublicKey, Signature};
use std::collections::{BTreeMap, HashMap};
use std::sync::{Arc, Mutex, OnceLock};

pub fn free_messages(_s: &Search, _g: &GState) -> Vec<MsgId> {
    Vec::new()
}

type Cache = Mutex<HashMap<(u64, [u64; POOLW]), Arc<Vec<MsgId>>>>;
static CACHE: OnceLock<Cache> = OnceLock::new();

pub fn menu(s: &Search, g: &GState) -> Arc<Vec<MsgId>> {
    let cache = CACHE.get_or_init(|| Mutex::new(HashMap::new()));
    let key = (s.id(), g.pool);
    if let Some(m) = cache.lock().unwrap().get(&key) {
        return m.clone();
    }
    let m = Arc::new(compute(s, g));
    let mut c = cache.lock().unwrap();
    if c.len() > 2_000_000 {
        c.clear();
    }
    c.insert(key, m.clone());
    m
}

fn compute(s: &Search, g: &GState) -> Vec<MsgId> {
    let w = &s.world;
    let b = s.cfg.byz.unwrap();
    let bname = w.name(b);
    let q = w.ref_quorum();
    let maxr = s.cfg.max_round;
    let msgs: Vec<_> = g.pool_items().iter().map(|p| s.uni.msg(s.pitem(*p).0)).collect();

    // what is on the wire
    let mut blocks: BTreeMap<Digest, Block> = BTreeMap::new();
    let mut qcs: BTreeMap<(Round, Digest), QC> = BTreeMap::new();
    let mut tcs: BTreeMap<(Round, Vec<(PublicKey, Round)>), TC> = BTreeMap::new();
    let mut votes: BTreeMap<(Round, Digest), BTreeMap<PublicKey, Signature>> = BTreeMap::new();
    let mut timeouts: BTreeMap<Round, BTreeMap<PublicKey, (Signature, Round)>> = BTreeMap::new();
    let mut add_qc = |qc: &QC, qcs: &mut BTreeMap<(Round, Digest), QC>| {
        if !is_genesis_qc(qc) {
            qcs.entry((qc.round, qc.hash.clone())).or_insert_with(|| qc.clone());
        }
    };
    let tc_key = |tc: &TC| {
        let mut v: Vec<(PublicKey, Round)> = tc.votes.iter().map(|(k, _, h)| (*k, *h)).collect();
        v.sort();
        (tc.round, v)
    };
    for m in &msgs {
        match &m.msg {
            ConsensusMessage::Propose(blk) => {
                blocks.insert(blk.digest(), blk.clone());
                add_qc(&blk.qc, &mut qcs);
                if let Some(tc) = &blk.tc {
                    tcs.entry(tc_key(tc)).or_insert_with(|| tc.clone());
                }
            }
            ConsensusMessage::Vote(v) => {
                votes.entry((v.round, v.hash.clone())).or_default().insert(v.author, v.signature.clone());
            }
            ConsensusMessage::Timeout(t) => {
                add_qc(&t.high_qc, &mut qcs);
                timeouts.entry(t.round).or_default().insert(t.author, (t.signature.clone(), t.high_qc.round));
            }
            ConsensusMessage::TC(tc) => {
                tcs.entry(tc_key(tc)).or_insert_with(|| tc.clone());
            }
            ConsensusMessage::SyncRequest(..) => {}
        }
    }
    // certificates formable from honest votes on the wire plus the Byzantine signature
    for ((round, hash), vs) in &votes {
        if qcs.contains_key(&(*round, hash.clone())) {
            continue;
        }
        let mut vs = vs.clone();
        if !vs.contains_key(&bname) {
            let v = w.vote_for(b, hash.clone(), *round);
            vs.insert(bname, v.signature);
        }
        let stake: u64 = vs.keys().filter_map(|k| w.index_of(k)).map(|i| w.stakes[i] as u64).sum();
        if stake >= q {
            qcs.insert((*round, hash.clone()), QC { hash: hash.clone(), round: *round, votes: vs.into_iter().collect() });
        }
    }
    let qc_rounds: Vec<Round> = {
        let mut v: Vec<Round> = qcs.keys().map(|k| k.0).collect();
        v.push(0);
        v.sort();
        v.dedup();
        v
    };
    for (round, ts) in &timeouts {
        // own entry may claim any known QC round; prefer the lowest (most dangerous) and the highest
        let mut claims = vec![0u64];
        if let Some(h) = qc_rounds.iter().filter(|r| **r < *round).max() {
            if *h != 0 {
                claims.push(*h);
            }
        }
        for claim in claims {
            let mut ts = ts.clone();
            if !ts.contains_key(&bname) {
                let t = w.timeout(b, *round, QC { hash: Digest::default(), round: claim, votes: vec![] });
                ts.insert(bname, (t.signature, claim));
            }
            let stake: u64 = ts.keys().filter_map(|k| w.index_of(k)).map(|i| w.stakes[i] as u64).sum();
            if stake >= q {
                let tc = TC { round: *round, votes: ts.into_iter().map(|(k, (s, h))| (k, s, h)).collect() };
                tcs.entry(tc_key(&tc)).or_insert(tc);
            }
        }
    }

    let mut out: Vec<MsgId> = Vec::new();
    let mut all_qcs: Vec<QC> = vec![QC::genesis()];
    all_qcs.extend(qcs.values().cloned());
    // proposals
    for r in 1..=maxr {
        let leads = w.ref_leader(r) == b;
        let cands: Vec<&QC> = all_qcs.iter().filter(|qc| qc.round < r).collect();
        if leads {
            for qc in &cands {
                let mut tc_opts: Vec<Option<TC>> = vec![None];
                for ((tr, _), tc) in &tcs {
                    if *tr + 1 == r {
                        tc_opts.push(Some(tc.clone()));
                    }
                }
                for tc in tc_opts {
                    for variant in 0..2 {
                        let payload = if variant == 0 { vec![] } else { vec![variant_payload()] };
                        let blk = w.block(b, r, (*qc).clone(), tc.clone(), payload);
                        out.push(s.uni.intern(ConsensusMessage::Propose(blk)));
                    }
                }
            }
        } else if let Some(qc) = cands.iter().max_by_key(|qc| qc.round) {
            // probe: proposal for a round the Byzantine member does not lead
            let blk = w.block(b, r, (*qc).clone(), None, vec![]);
            out.push(s.uni.intern(ConsensusMessage::Propose(blk)));
        }
    }
    // votes for every block on the wire
    for blk in blocks.values() {
        if blk.round <= maxr {
            let v: Vote = w.vote(b, blk);
            out.push(s.uni.intern(ConsensusMessage::Vote(v)));
        }
    }
    // timeouts with the lowest and the highest known QC
    for r in 1..=maxr {
        let mut hq: Vec<QC> = vec![QC::genesis()];
        if let Some(best) = qcs.values().filter(|qc| qc.round < r).max_by_key(|qc| qc.round) {
            hq.push(best.clone());
        }
        for qc in hq {
            let t: Timeout = w.timeout(b, r, qc);
            out.push(s.uni.intern(ConsensusMessage::Timeout(t)));
        }
    }
    // certificates it can form, sent as such
    for tc in tcs.values() {
        if tc.round <= maxr {
            out.push(s.uni.intern(ConsensusMessage::TC(tc.clone())));
        }
    }
    out.sort();
    out.dedup();
    out
}
