// Engine `solo`: explicit-state search over the local states of ONE real node whose entire
// environment (the three other authorities, holding a quorum of keys) is adversarial: any block
// tree up to round R, any vote, timeout and certificate the others could sign, in any order, with
// duplicates, interleaved with the node's own timer. Serves the single-node properties
// (C02, C03, C05, C10, C19 and the local parts of C09 / C04).
use super::node::Witness;
use super::universe::*;
use super::{Cfg, Search};
use crate::util::{ncpu, Report, Tier};
use consensus::verif::{ConsensusMessage, Round};
use consensus::{Block, QC, TC};
use crypto::{Digest, Hash as _};
use serde_json::json;
use std::collections::{BTreeMap, BTreeSet, HashSet, VecDeque};
use std::sync::atomic::{AtomicUsize, Ordering};
use std::sync::Mutex;
use std::time::Instant;

pub struct SoloCfg {
    pub node: usize,
    pub max_round: Round,
    /// include blocks whose TC claims a higher QC round than the block's own QC (unsafe to vote)
    pub stale_variants: bool,
    pub with_votes: bool,
    pub with_timeouts: bool,
    pub max_states: usize,
    pub wall_cap_s: f64,
    pub max_depth: usize,
    pub with_tcs: bool,
    /// a few INVALID messages (forged in the node's own name, carrying unsigned certificates,
    /// below-quorum TC): they must have no effect, and the monitors must stay silent
    pub with_invalid: bool,
    /// blocks of rounds 1-2 also exist in a variant whose payload batch is NOT in the store;
    /// the batch arrives as a separate event (payload-resumed processing path)
    pub with_payload: bool,
    /// sync requests from another member for every block of the universe
    pub with_sync_requests: bool,
    /// committee stakes (a listed member with stake 0 has no voting rights)
    pub stakes: Vec<u32>,
    /// correctly signed blocks that lack a justification: rounds skipped without a TC, and blocks
    /// whose QC is of a round at or above their own (they may be stored, never voted for)
    pub with_unjustified: bool,
    /// the node's own mempool hands a digest to its proposer (its next proposal carries a payload)
    pub with_digest: bool,
}

pub struct Uni2 {
    /// digest -> block, all blocks of the universe (crafted + the node's own)
    pub blocks: BTreeMap<Vec<u8>, Block>,
}

pub fn craft_children(s: &Search, sc: &SoloCfg, u: &mut Uni2) -> bool {
    let w = &s.world;
    let t = sc.node;
    let others: Vec<usize> = (0..w.n()).filter(|i| *i != t && w.stakes[*i] > 0).collect();
    let mut grew = false;
    loop {
        let mut new_blocks: Vec<Block> = Vec::new();
        let mut parents: Vec<Option<Block>> = vec![None];
        parents.extend(u.blocks.values().cloned().map(Some));
        let known_rounds: BTreeSet<Round> = u.blocks.values().map(|b| b.round).collect();
        for p in &parents {
            let (pround, qc) = match p {
                None => (0, QC::genesis()),
                Some(b) => (b.round, w.qc(b, &others)),
            };
            for r in (pround + 1)..=sc.max_round {
                let leader = w.ref_leader(r);
                if leader == t || w.stakes[leader] == 0 {
                    continue; // the node's own blocks come from the node itself; a member without voting rights cannot propose
                }
                let mut tcs: Vec<Option<TC>> = Vec::new();
                if r == pround + 1 {
                    tcs.push(None);
                } else {
                    tcs.push(Some(w.tc(r - 1, &others.iter().map(|o| (*o, pround)).collect::<Vec<_>>())));
                    if sc.stale_variants {
                        // one signer claims a higher QC round than the block extends
                        for claim in known_rounds.iter().filter(|c| **c > pround && **c < r) {
                            let mut e: Vec<(usize, Round)> = others.iter().map(|o| (*o, pround)).collect();
                            e[0].1 = *claim;
                            tcs.push(Some(w.tc(r - 1, &e)));
                        }
                    }
                }
                for tc in tcs {
                    let b = w.block(leader, r, qc.clone(), tc.clone(), Vec::new());
                    new_blocks.push(b);
                    if sc.with_payload && r <= 2 {
                        new_blocks.push(w.block(leader, r, qc.clone(), tc, vec![super::node::payload_digest(0)]));
                    }
                }
            }
        }
        let mut any = false;
        for b in new_blocks {
            // identify by digest AND justification (two blocks with the same digest but different TC)
            let key = canon_msg(&ConsensusMessage::Propose(b.clone()), true);
            if !u.blocks.contains_key(&key) {
                u.blocks.insert(key, b);
                any = true;
                grew = true;
            }
        }
        if !any {
            break;
        }
    }
    grew
}

pub fn menu(s: &Search, sc: &SoloCfg, u: &Uni2, stale_blocks: &[Block]) -> Vec<Ev> {
    let w = &s.world;
    let t = sc.node;
    let others: Vec<usize> = (0..w.n()).filter(|i| *i != t && w.stakes[*i] > 0).collect();
    let mut evs: Vec<Ev> = vec![Ev::Timer];
    if sc.with_payload {
        evs.push(Ev::Batch(0));
    }
    if sc.with_digest {
        evs.push(Ev::Digest(0));
    }
    let mut push = |m: ConsensusMessage, evs: &mut Vec<Ev>| {
        let id = s.uni.intern(m);
        let e = Ev::Deliver(id);
        if !evs.contains(&e) {
            evs.push(e);
        }
    };
    for b in u.blocks.values().chain(stale_blocks.iter()) {
        if b.author != w.name(t) {
            push(ConsensusMessage::Propose(b.clone()), &mut evs);
        }
    }
    if sc.with_votes {
        for b in u.blocks.values() {
            if b.round <= sc.max_round {
                for o in &others {
                    push(ConsensusMessage::Vote(w.vote(*o, b)), &mut evs);
                }
            }
        }
    }
    if sc.with_timeouts || sc.with_tcs {
        for r in 1..=sc.max_round {
            // high QCs: genesis, and the QC of every block in the two rounds below r
            let mut hqs: Vec<QC> = vec![QC::genesis()];
            for b in u.blocks.values() {
                if b.round < r && b.round + 2 >= r {
                    hqs.push(w.qc(b, &others));
                }
            }
            for o in others.iter().filter(|_| sc.with_timeouts) {
                for qc in &hqs {
                    push(ConsensusMessage::Timeout(w.timeout(*o, r, qc.clone())), &mut evs);
                }
            }
            // TCs: everybody claims genesis / everybody claims the highest existing round below r
            let mut claims: BTreeSet<Round> = BTreeSet::new();
            claims.insert(0);
            if let Some(m) = u.blocks.values().map(|b| b.round).filter(|x| *x < r).max() {
                claims.insert(m);
            }
            for c in claims {
                push(ConsensusMessage::TC(w.tc(r, &others.iter().map(|o| (*o, c)).collect::<Vec<_>>())), &mut evs);
            }
        }
    }
    if sc.with_sync_requests {
        for b in u.blocks.values() {
            push(ConsensusMessage::SyncRequest(b.digest(), w.name(others[0])), &mut evs);
        }
    }
    if sc.with_unjustified {
        let next_led_by_other = |from: Round| -> Round { (from..from + 4).find(|r| w.ref_leader(*r) != t).unwrap() };
        // a: skips rounds on the genesis QC without a TC; b: skips again on QC(a) without a TC;
        // bad / bad2: a LOW round on QC(b) (a QC of a higher round), with and without a TC
        let ra = next_led_by_other(2);
        let a = w.block(w.ref_leader(ra), ra, QC::genesis(), None, vec![]);
        let rb = next_led_by_other(ra + 2);
        let b = w.block(w.ref_leader(rb), rb, w.qc(&a, &others), None, vec![]);
        let rbad = next_led_by_other(2);
        let tc = w.tc(rbad - 1, &others.iter().map(|o| (*o, 0)).collect::<Vec<_>>());
        let bad = w.block(w.ref_leader(rbad), rbad, w.qc(&b, &others), Some(tc), vec![]);
        let bad2 = w.block(w.ref_leader(rbad), rbad, w.qc(&b, &others), None, vec![]);
        // same round as its QC
        let same = w.block(w.ref_leader(rb), rb, w.qc(&b, &others), None, vec![]);
        for x in [a, b, bad, bad2, same] {
            push(ConsensusMessage::Propose(x), &mut evs);
        }
    }
    if sc.with_invalid {
        use crypto::Digest;
        let mut bs: Vec<&Block> = u.blocks.values().filter(|b| b.author != w.name(t)).collect();
        bs.sort_by_key(|b| (b.round, b.digest()));
        // a vote in the node's OWN name signed by somebody else
        if let Some(b) = bs.first() {
            let mut v = w.vote(others[0], b);
            v.author = w.name(t);
            push(ConsensusMessage::Vote(v), &mut evs);
        }
        // timeouts of another member (correctly signed: the signature covers only the rounds)
        // carrying an UNSIGNED certificate for a block
        for b in bs.iter().take(2) {
            let fake = QC { hash: b.digest(), round: b.round, votes: vec![] };
            push(ConsensusMessage::Timeout(w.timeout(others[1], b.round + 1, fake.clone())), &mut evs);
            let far = sc.max_round.max(b.round + 1);
            push(ConsensusMessage::Timeout(w.timeout(others[1], far, fake)), &mut evs);
        }
        // a timeout in the node's own name signed by somebody else
        let mut tmo = w.timeout(others[0], 1, QC::genesis());
        tmo.author = w.name(t);
        push(ConsensusMessage::Timeout(tmo), &mut evs);
        // blocks by the round's leader carrying a ONE-signature QC for an existing block, with and
        // (in payload configurations) without their payload being available
        let mut per_round: Vec<&Block> = Vec::new();
        for b in bs.iter() {
            // only blocks whose whole ancestry is plain (no payload, no TC)
            let mut plain = true;
            let mut cur: &Block = b;
            loop {
                if !cur.payload.is_empty() || cur.tc.is_some() {
                    plain = false;
                    break;
                }
                if crate::world::is_genesis_qc(&cur.qc) {
                    break;
                }
                match u.blocks.values().find(|x| x.digest() == cur.qc.hash && x.payload.is_empty()) {
                    Some(p) => cur = p,
                    None => {
                        plain = false;
                        break;
                    }
                }
            }
            if plain && !per_round.iter().any(|x| x.round == b.round) {
                per_round.push(*b);
            }
        }
        for b in per_round.iter().take(3) {
            let r = b.round + 1;
            let leader = w.ref_leader(r);
            if leader != t && r <= sc.max_round + 1 {
                let fake = w.qc(b, &[others[0]]);
                push(ConsensusMessage::Propose(w.block(leader, r, fake.clone(), None, vec![])), &mut evs);
                if sc.with_payload {
                    push(ConsensusMessage::Propose(w.block(leader, r, fake, None, vec![super::node::payload_digest(0)])), &mut evs);
                }
            }
        }
        // correctly signed messages of a listed member WITHOUT voting rights (stake 0)
        if let Some(z) = (0..w.n()).find(|i| w.stakes[*i] == 0 && *i != t) {
            for b in per_round.iter().take(2) {
                push(ConsensusMessage::Vote(w.vote(z, b)), &mut evs);
            }
            push(ConsensusMessage::Timeout(w.timeout(z, 1, QC::genesis())), &mut evs);
            push(ConsensusMessage::Timeout(w.timeout(z, 2, QC::genesis())), &mut evs);
        }
        // blocks of the round's leader whose "QC" names an existing block but claims round 0 and has
        // no signatures (a certificate is the genesis QC only if hash AND round are the genesis ones)
        for b in per_round.iter().take(2) {
            for r in [b.round + 1, b.round + 2] {
                let leader = w.ref_leader(r);
                if leader != t && r <= sc.max_round + 1 {
                    let fake = QC { hash: b.digest(), round: 0, votes: vec![] };
                    push(ConsensusMessage::Propose(w.block(leader, r, fake, None, vec![])), &mut evs);
                }
            }
        }
        // a TC below quorum
        push(ConsensusMessage::TC(w.tc(2, &[(others[0], 0), (others[1], 0)])), &mut evs);
        let _ = Digest::default();
    }
    evs
}

pub fn run(rep: &mut Report, property: &str, cfgname: &str, sc: SoloCfg) {
    let t0 = Instant::now();
    let cfg = Cfg {
        name: format!("solo({},node=n{},R={})", cfgname, sc.node, sc.max_round),
        stakes: sc.stakes.clone(),
        honest: vec![sc.node],
        byz: None,
        strict: true,
        max_round: sc.max_round,
        t_budget: 0,
        k_budget: 0,
        deliver_sync: true,
        canon_certs: true,
        max_states: sc.max_states,
        wall_cap_s: sc.wall_cap_s,
        big_pool: true, // `solo` keeps no `GState`: the pool-item table may grow freely
    };
    let s = Search::new(cfg.clone());
    let l0 = s.boot_local(sc.node);
    let mut u = Uni2 { blocks: BTreeMap::new() };
    let mut generations = 0;
    let visited: Mutex<HashSet<LId>> = Mutex::new(HashSet::new());
    let mut capped: Option<String> = None;
    let mut edges_total = 0u64;
    let mut level_sizes: Vec<usize> = Vec::new();
    'gens: loop {
        generations += 1;
        craft_children(&s, &sc, &mut u);
        let evs = menu(&s, &sc, &u, &[]);
        if std::env::var("HSV_DEBUG").is_ok() {
            for e in &evs {
                eprintln!("menu: {}", s.describe_ev(e));
            }
        }
        // level-synchronous BFS to depth sc.max_depth with the current menu (memo keeps re-runs cheap)
        visited.lock().unwrap().clear();
        visited.lock().unwrap().insert(l0);
        let mut frontier: Vec<LId> = vec![l0];
        let own_blocks: Mutex<Vec<Block>> = Mutex::new(Vec::new());
        level_sizes.clear();
        edges_total = 0;
        for _depth in 0..sc.max_depth {
            level_sizes.push(frontier.len());
            let next: Mutex<Vec<LId>> = Mutex::new(Vec::new());
            let idx = AtomicUsize::new(0);
            let edges = AtomicUsize::new(0);
            std::thread::scope(|scope| {
                for _ in 0..ncpu() {
                    scope.spawn(|| {
                        loop {
                            let i = idx.fetch_add(1, Ordering::Relaxed);
                            if i >= frontier.len() {
                                break;
                            }
                            let lid = frontier[i];
                            for ev in &evs {
                                let tr = s.ltrans(lid, *ev);
                                edges.fetch_add(1, Ordering::Relaxed);
                                for p in &tr.out {
                                    let (m, _) = s.pitem(*p);
                                    let info = s.uni.msg(m);
                                    if let ConsensusMessage::Propose(b) = &info.msg {
                                        if b.author == s.world.name(sc.node) && b.round <= sc.max_round {
                                            own_blocks.lock().unwrap().push(b.clone());
                                        }
                                    }
                                }
                                if tr.next != lid && visited.lock().unwrap().insert(tr.next) {
                                    next.lock().unwrap().push(tr.next);
                                }
                            }
                        }
                        super::clear_thread_cache();
                    });
                }
            });
            edges_total += edges.load(Ordering::Relaxed) as u64;
            frontier = next.into_inner().unwrap();
            frontier.sort();
            if frontier.is_empty() {
                break;
            }
            if visited.lock().unwrap().len() >= sc.max_states || t0.elapsed().as_secs_f64() > sc.wall_cap_s {
                capped = Some(format!("cap reached after depth {} (states {} / wall {:.0}s)", level_sizes.len(), visited.lock().unwrap().len(), t0.elapsed().as_secs_f64()));
                break 'gens;
            }
        }
        let mut grew = false;
        for b in own_blocks.into_inner().unwrap() {
            let key = canon_msg(&ConsensusMessage::Propose(b.clone()), true);
            if !u.blocks.contains_key(&key) {
                u.blocks.insert(key, b);
                grew = true;
            }
        }
        if !grew {
            break;
        }
    }
    let states = visited.lock().unwrap().len();
    for ((prop, sig), rec) in s.findings.lock().unwrap().iter() {
        let f = rec.finding.as_ref().unwrap();
        if prop != property && prop != "PANIC" {
            rep.add("other_property_findings_seen", 1);
            continue;
        }
        let replay = json!({
            "engine": "solo", "config": cfg.name, "kind": "local", "node": rec.node,
            "events": rec.history.iter().map(|e| s.describe_ev(e)).collect::<Vec<_>>(),
            "events_raw": rec.history.iter().map(|e| s.raw_ev(e)).collect::<Vec<_>>(),
        });
        rep.violation(sig.clone(), format!("[{}] {}", cfg.name, f.what), replay);
    }
    let mut wit = serde_json::Map::new();
    for (i, n) in Witness::names().iter().enumerate() {
        wit.insert(n.to_string(), json!(s.witness_counts[i].load(Ordering::Relaxed)));
    }
    let real = s.real_steps.load(Ordering::Relaxed);
    let replays = s.replay_steps.load(Ordering::Relaxed);
    println!(
        "  {}: depth<={} levels={:?} local_states={} edges={} universe_blocks={} generations={} real_steps={} replays={} wall={:.1}s{}",
        cfg.name, sc.max_depth, level_sizes, states, edges_total, u.blocks.len(), generations, real, replays, t0.elapsed().as_secs_f64(),
        capped.as_ref().map(|c| format!(" CAPPED: {}", c)).unwrap_or_default()
    );
    rep.add("states", states as u64);
    rep.add("transitions", edges_total);
    rep.add("real_node_steps", real);
    rep.add("replayed_node_steps_revalidated", replays);
    rep.add("traces_validated_against_impl", real + replays);
    let mut prev: Vec<serde_json::Value> = rep.coverage.get("solo_configs").and_then(|v| v.as_array().cloned()).unwrap_or_default();
    prev.push(json!({"config": cfg.name, "local_states": states, "edges": edges_total, "universe_blocks": u.blocks.len(),
        "completed": capped.is_none(), "cap_hit": capped, "witnesses": serde_json::Value::Object(wit),
        "max_depth": sc.max_depth, "level_sizes": level_sizes, "stale_tc_variants": sc.stale_variants, "payload_variants": sc.with_payload, "invalid_messages": sc.with_invalid, "tc_messages": sc.with_tcs, "votes": sc.with_votes, "timeouts_and_tcs": sc.with_timeouts}));
    rep.set("solo_configs", serde_json::Value::Array(prev));
    if capped.is_some() {
        rep.set("exhaustive", json!(false));
    }
    if let Some(rec) = s.deepest_history() {
        rep.sample(json!({"engine":"solo","config":cfg.name,"one_history": rec.iter().map(|e| s.describe_ev(e)).collect::<Vec<_>>()}));
    }
}

pub fn default_cfg(node: usize, r: Round, tier: Tier) -> SoloCfg {
    SoloCfg {
        node,
        max_round: r,
        stale_variants: true,
        with_votes: true,
        with_timeouts: true,
        max_states: tier.pick(200_000, 5_000_000),
        wall_cap_s: tier.pick(40.0, 600.0),
        max_depth: tier.pick(4, 6),
        with_tcs: true,
        with_invalid: true,
        with_payload: false,
        with_sync_requests: false,
        stakes: vec![1, 1, 1, 1],
        with_unjustified: false,
        with_digest: false,
    }
}
