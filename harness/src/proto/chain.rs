// Engine `chain`: every chain shape x every learning order, delivered to ONE real node by a
// harness that plays all other authorities (it holds their keys, so every QC/TC is genuine).
// Serves C02 / C05 (and runs every other local monitor on the way).
use super::node::{Finding, LiveNode, Witness};
use super::universe::*;
use crate::util::{ncpu, par_map, Report, Tier};
use crate::world::World;
use consensus::verif::ConsensusMessage;
use consensus::{Block, QC};
use serde_json::json;
use std::collections::{BTreeMap, BTreeSet, HashSet};
use std::sync::Arc;

fn permutations(n: usize) -> Vec<Vec<usize>> {
    fn rec(cur: &mut Vec<usize>, used: &mut Vec<bool>, n: usize, out: &mut Vec<Vec<usize>>) {
        if cur.len() == n {
            out.push(cur.clone());
            return;
        }
        for i in 0..n {
            if !used[i] {
                used[i] = true;
                cur.push(i);
                rec(cur, used, n, out);
                cur.pop();
                used[i] = false;
            }
        }
    }
    let mut out = Vec::new();
    rec(&mut Vec::new(), &mut vec![false; n], n, &mut out);
    out
}

/// Build the chain for a shape (round increments); returns the blocks oldest first.
pub fn build_chain(w: &World, shape: &[u64], signers: &[usize]) -> Vec<Block> {
    let mut blocks: Vec<Block> = Vec::new();
    let mut round = 0u64;
    let mut qc = QC::genesis();
    for d in shape {
        let prev_round = round;
        round += d;
        let tc = if *d > 1 {
            Some(w.tc(round - 1, &signers.iter().map(|s| (*s, prev_round)).collect::<Vec<_>>()))
        } else {
            None
        };
        let b = w.block(w.ref_leader(round), round, qc.clone(), tc, Vec::new());
        qc = w.qc(&b, signers);
        blocks.push(b);
    }
    blocks
}

struct Outcome {
    steps: u64,
    keys: Vec<u64>,
    findings: Vec<(Finding, serde_json::Value)>,
    witness: Vec<bool>,
    commits: usize,
}

fn run_one(w: &Arc<World>, node: usize, shape: &[u64], order: &[usize], dup: bool) -> Outcome {
    let uni = Universe::new(w.clone(), true);
    let signers: Vec<usize> = (0..w.n()).filter(|i| *i != node).collect();
    let blocks = build_chain(w, shape, &signers);
    let (mut ln, _) = LiveNode::boot(w, &uni, node);
    let mut out = Outcome { steps: 0, keys: Vec::new(), findings: Vec::new(), witness: vec![false; Witness::names().len()], commits: 0 };
    let mut events: Vec<String> = Vec::new();
    let mut raw: Vec<String> = Vec::new();
    let mut seq: Vec<usize> = order.to_vec();
    if dup {
        // re-deliver everything once more, same order (duplicates / already processed blocks)
        seq.extend(order.iter().cloned());
    }
    for i in seq {
        let m = ConsensusMessage::Propose(blocks[i].clone());
        let id = uni.intern(m);
        events.push(format!("deliver {}", uni.msg(id).desc));
        raw.push(crate::util::hex(&uni.msg(id).bytes));
        let res = ln.apply(&uni, Ev::Deliver(id));
        out.steps += 1;
        out.keys.push(crate::util::hash64(&res.key));
        for (k, b) in res.witness.flags().iter().enumerate() {
            if *b {
                out.witness[k] = true;
            }
        }
        for f in res.findings {
            let replay = json!({"engine":"chain","node":node,"shape":shape,"order":order,"redeliver":dup,"events":events.clone(),"events_raw":raw.clone()});
            out.findings.push((f, replay));
        }
    }
    out.commits = ln.hist.commits.len();
    out
}

pub fn run(rep: &mut Report, property: &str, tier: Tier) {
    let w = Arc::new(World::new(&[1, 1, 1, 1]));
    // (max length for all learning orders, max length for in-order delivery)
    let (perm_len, inorder_len) = tier.pick((4usize, 6usize), (5usize, 8usize));
    let mut jobs: Vec<(usize, Vec<u64>, Vec<usize>, bool)> = Vec::new();
    fn shapes(len: usize, cur: &mut Vec<u64>, out: &mut Vec<Vec<u64>>) {
        if cur.len() == len {
            out.push(cur.clone());
            return;
        }
        for d in 1..=3u64 {
            cur.push(d);
            shapes(len, cur, out);
            cur.pop();
        }
    }
    let nodes: Vec<usize> = tier.pick(vec![0, 2], vec![0, 1, 2, 3]);
    for len in 1..=inorder_len {
        let mut all = Vec::new();
        shapes(len, &mut Vec::new(), &mut all);
        for s in all {
            for &node in &nodes {
                if len <= perm_len {
                    for p in permutations(len) {
                        jobs.push((node, s.clone(), p, false));
                    }
                } else {
                    jobs.push((node, s.clone(), (0..len).collect(), false));
                }
                if len <= 4 {
                    jobs.push((node, s.clone(), (0..len).collect(), true));
                    jobs.push((node, s.clone(), (0..len).rev().collect(), true));
                }
            }
        }
    }
    let results = par_map(jobs.len(), ncpu(), |i| {
        let (node, shape, order, dup) = &jobs[i];
        run_one(&w, *node, shape, order, *dup)
    });
    let mut steps = 0u64;
    let mut keys: HashSet<u64> = HashSet::new();
    let mut wit = vec![0u64; Witness::names().len()];
    let mut outcomes: BTreeMap<usize, u64> = BTreeMap::new();
    let mut seen_sig: BTreeSet<String> = BTreeSet::new();
    for (i, o) in results.iter().enumerate() {
        steps += o.steps;
        keys.extend(o.keys.iter().cloned());
        *outcomes.entry(o.commits).or_insert(0) += 1;
        for (k, b) in o.witness.iter().enumerate() {
            if *b {
                wit[k] += 1;
            }
        }
        for (f, replay) in &o.findings {
            if f.property == property || f.property == "PANIC" {
                if seen_sig.insert(f.signature.clone()) {
                    rep.violation(f.signature.clone(), format!("[chain shape {:?} order {:?}] {}", jobs[i].1, jobs[i].2, f.what), replay.clone());
                }
            } else {
                rep.add("other_property_findings_seen", 1);
            }
        }
    }
    println!("  chain: executions={} node_steps={} distinct_local_states={} commit-count outcomes={:?}", jobs.len(), steps, keys.len(), outcomes);
    rep.add("states", keys.len() as u64);
    rep.add("transitions", steps);
    rep.add("traces_validated_against_impl", steps);
    rep.add("chain_executions", jobs.len() as u64);
    let mut wj = serde_json::Map::new();
    for (k, n) in Witness::names().iter().enumerate() {
        wj.insert(n.to_string(), json!(wit[k]));
    }
    rep.set("chain_witnesses", serde_json::Value::Object(wj));
    rep.set("chain_bounds", json!({"round_increments":"1..=3 per block","all_learning_orders_up_to_length":perm_len,"in_order_up_to_length":inorder_len,"nodes_under_test":nodes,"redelivery":"every shape of length <=4, in order and reversed, delivered twice"}));
    rep.set("chain_distinct_outcomes_by_commit_count", json!(outcomes));
    rep.sample(json!({"engine":"chain","shape":jobs[jobs.len()/2].1,"order":jobs[jobs.len()/2].2,"node":jobs[jobs.len()/2].0}));
}
