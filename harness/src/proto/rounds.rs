// Engine `rounds` (C01): breadth-first search over *round-structured adversarial schedules*.
//
// The `proto` search interleaves single deliveries and is exhaustive only for ~3 rounds. Attacks on
// agreement need more rounds than that but little interleaving: what the asynchronous adversary
// really chooses, round after round, is (a) which 2f+1 members take part while the remaining one is
// left behind, (b) whether the round ends with a certified proposal or with a timeout certificate,
// and (c) what the Byzantine member proposes / claims. One transition of this engine is such a
// macro-step, executed as a fixed sequence of deliveries and timer expiries on the real nodes
// (through the memoised local transitions of `Search`); states are deduplicated on (local states of
// the honest nodes, set of messages on the wire, round bookkeeping). Deviations = changes of the
// left-behind member; the bound on them is iterated.
use super::node::{Finding, LiveNode};
use super::universe::{Ev, LId, MsgId};
use super::{FindingRec, Search, MAXN};
use crate::util::{machinery_error, ncpu, Report, Tier};
use crate::world::is_genesis_qc;
use consensus::verif::{ConsensusMessage, Round};
use consensus::{Block, QC, TC};
use crypto::{Digest, Hash as _, PublicKey, Signature};
use serde_json::{json, Value};
use std::collections::{BTreeMap, HashMap};
use std::sync::atomic::{AtomicU64, AtomicUsize, Ordering};
use std::sync::Mutex;
use std::time::Instant;

#[derive(Clone, Copy, Debug, PartialEq, Eq, Hash)]
pub enum Kind {
    /// the round's proposal reaches the participants, their votes reach the next leader
    Q,
    /// the participants' timers expire, their timeouts reach one another
    T,
    /// proposal and votes first, then the participants still in the round time out
    QT,
}

#[derive(Clone, Copy, Debug, PartialEq, Eq, Hash)]
pub struct Macro {
    pub round: u8,
    /// member left behind in this step (MAXN = nobody)
    pub excl: u8,
    pub kind: Kind,
    /// Byzantine leader: index of the certificate it extends in the sorted list of QCs it knows
    pub qc_choice: u8,
    /// Byzantine timeout carries the highest QC it knows (else the genesis QC)
    pub claim_high: bool,
}

#[derive(Clone, Copy, Debug)]
pub enum Prim {
    Deliver(u8, MsgId),
    Timer(u8),
}

#[derive(Clone, Debug)]
pub struct RoundsCfg {
    pub byz: usize,
    pub max_round: u8,
    pub max_steps: usize,
    pub max_dev: u8,
    pub max_states: usize,
    pub wall_cap_s: f64,
}

/// Global state of this engine (the pool is a sorted list: unlike `RState` it is not width-limited).
#[derive(Clone, PartialEq, Eq, Hash, Debug)]
pub struct RState {
    pub locals: [LId; MAXN],
    pub pool: Vec<MsgId>,
    pub t_used: u8,
    pub k_used: u8,
}

impl RState {
    fn set(&mut self, m: MsgId) {
        if let Err(pos) = self.pool.binary_search(&m) {
            self.pool.insert(pos, m);
        }
    }
}

struct Know {
    blocks: BTreeMap<Digest, Block>,
    qcs: BTreeMap<(Round, Digest), QC>,
    votes: BTreeMap<(Round, Digest), BTreeMap<PublicKey, Signature>>,
    timeouts: BTreeMap<Round, BTreeMap<PublicKey, (Signature, Round)>>,
    tcs: Vec<TC>,
    proposals: BTreeMap<Round, Vec<(MsgId, PublicKey)>>,
    vote_msgs: BTreeMap<Round, Vec<(MsgId, PublicKey)>>,
    timeout_msgs: BTreeMap<Round, Vec<(MsgId, PublicKey)>>,
    tc_msgs: BTreeMap<Round, Vec<MsgId>>,
    timeout_qc_msgs: BTreeMap<Round, Vec<MsgId>>, // Timeout messages by the round of the QC they carry
}

fn know(s: &Search, g: &RState) -> Know {
    let mut k = Know {
        blocks: BTreeMap::new(),
        qcs: BTreeMap::new(),
        votes: BTreeMap::new(),
        timeouts: BTreeMap::new(),
        tcs: Vec::new(),
        proposals: BTreeMap::new(),
        vote_msgs: BTreeMap::new(),
        timeout_msgs: BTreeMap::new(),
        tc_msgs: BTreeMap::new(),
        timeout_qc_msgs: BTreeMap::new(),
    };
    // message ids depend on the interning order (thread timing): every list below is ordered by
    // message content so that every choice made from it is deterministic
    let mut items: Vec<(std::sync::Arc<super::universe::MsgInfo>, MsgId)> = g.pool.iter().map(|m| (s.uni.msg(*m), *m)).collect();
    items.sort_by(|a, b| a.0.bytes.cmp(&b.0.bytes));
    for (info, m) in items {
        match &info.msg {
            ConsensusMessage::Propose(b) => {
                k.blocks.insert(b.digest(), b.clone());
                if !is_genesis_qc(&b.qc) {
                    k.qcs.entry((b.qc.round, b.qc.hash.clone())).or_insert_with(|| b.qc.clone());
                }
                if let Some(tc) = &b.tc {
                    k.tcs.push(tc.clone());
                }
                k.proposals.entry(b.round).or_default().push((m, b.author));
            }
            ConsensusMessage::Vote(v) => {
                k.votes.entry((v.round, v.hash.clone())).or_default().insert(v.author, v.signature.clone());
                k.vote_msgs.entry(v.round).or_default().push((m, v.author));
            }
            ConsensusMessage::Timeout(t) => {
                if !is_genesis_qc(&t.high_qc) {
                    k.qcs.entry((t.high_qc.round, t.high_qc.hash.clone())).or_insert_with(|| t.high_qc.clone());
                    k.timeout_qc_msgs.entry(t.high_qc.round).or_default().push(m);
                }
                k.timeouts.entry(t.round).or_default().insert(t.author, (t.signature.clone(), t.high_qc.round));
                k.timeout_msgs.entry(t.round).or_default().push((m, t.author));
            }
            ConsensusMessage::TC(tc) => {
                k.tcs.push(tc.clone());
                k.tc_msgs.entry(tc.round).or_default().push(m);
            }
            ConsensusMessage::SyncRequest(..) => {}
        }
    }
    k
}

struct Exec<'a> {
    s: &'a Search,
    g: RState,
    prims: Vec<Prim>,
    z: usize,
}

impl<'a> Exec<'a> {
    fn round_of(&self, i: usize) -> Round {
        self.s.locals.get(self.g.locals[i]).key.snap.round
    }
    fn deliver(&mut self, i: usize, m: MsgId) {
        let tr = self.s.ltrans(self.g.locals[i], Ev::Deliver(m));
        self.s.transitions.fetch_add(1, Ordering::Relaxed);
        self.g.locals[i] = tr.next;
        for p in &tr.out {
            self.g.set(self.s.pitem(*p).0);
        }
        self.prims.push(Prim::Deliver(i as u8, m));
    }
    fn timer(&mut self, i: usize) {
        let tr = self.s.ltrans(self.g.locals[i], Ev::Timer);
        self.s.transitions.fetch_add(1, Ordering::Relaxed);
        self.g.locals[i] = tr.next;
        for p in &tr.out {
            self.g.set(self.s.pitem(*p).0);
        }
        self.prims.push(Prim::Timer(i as u8));
    }
    fn publish(&mut self, m: ConsensusMessage) -> MsgId {
        let id = self.s.uni.intern(m);
        self.g.set(id);
        id
    }
    /// Bring honest node `i` to round `r` with a certificate that is on the wire, if there is one.
    fn sync(&mut self, i: usize, r: Round) {
        if self.round_of(i) >= r || r == 0 {
            return;
        }
        let k = know(self.s, &self.g);
        if let Some(ms) = k.tc_msgs.get(&(r - 1)) {
            self.deliver(i, ms[0]);
        }
        if self.round_of(i) >= r {
            return;
        }
        if let Some(ms) = k.timeout_qc_msgs.get(&(r - 1)) {
            self.deliver(i, ms[0]);
        }
    }
}

/// The timeout certificate for `round` with the lowest maximal claimed QC round that the Byzantine
/// member can show: one seen on the wire, or one assembled from the timeouts seen plus its own.
fn best_tc(s: &Search, k: &Know, z: usize, round: Round, with_own: bool) -> Option<TC> {
    let w = &s.world;
    let q = w.ref_quorum();
    let mut cands: Vec<TC> = k.tcs.iter().filter(|t| t.round == round).cloned().collect();
    if let Some(ts) = k.timeouts.get(&round) {
        let mut ts = ts.clone();
        let zname = w.name(z);
        if with_own {
            // a Byzantine member signs whatever claim suits it, whatever it said before
            let t = w.timeout(z, round, QC::genesis());
            ts.insert(zname, (t.signature, 0));
        }
        // the quorum of entries with the lowest claims
        let mut entries: Vec<(PublicKey, Signature, Round)> = ts.into_iter().map(|(k, (s, h))| (k, s, h)).collect();
        entries.sort_by(|a, b| (a.2, a.0).cmp(&(b.2, b.0)));
        let mut stake = 0u64;
        let mut chosen = Vec::new();
        for e in entries {
            if stake >= q {
                break;
            }
            stake += w.index_of(&e.0).map(|i| w.stakes[i] as u64).unwrap_or(0);
            chosen.push(e);
        }
        if stake >= q {
            cands.push(TC { round, votes: chosen });
        }
    }
    cands.into_iter().min_by_key(|t| (t.votes.iter().map(|v| v.2).max().unwrap_or(0), bincode::serialize(t).unwrap()))
}

/// QCs the Byzantine member can show for rounds below `r`: on the wire, or formable from votes on the
/// wire plus its own signature. Sorted by (round, digest); index 0 is the genesis QC.
fn known_qcs(s: &Search, k: &Know, z: usize, r: Round) -> Vec<QC> {
    let w = &s.world;
    let q = w.ref_quorum();
    let mut qcs = k.qcs.clone();
    for ((round, hash), vs) in &k.votes {
        if qcs.contains_key(&(*round, hash.clone())) {
            continue;
        }
        let mut vs = vs.clone();
        let zname = w.name(z);
        if !vs.contains_key(&zname) {
            vs.insert(zname, w.vote_for(z, hash.clone(), *round).signature);
        }
        let stake: u64 = vs.keys().filter_map(|k| w.index_of(k)).map(|i| w.stakes[i] as u64).sum();
        if stake >= q {
            qcs.insert((*round, hash.clone()), QC { hash: hash.clone(), round: *round, votes: vs.into_iter().collect() });
        }
    }
    let mut v = vec![QC::genesis()];
    v.extend(qcs.into_iter().filter(|((round, _), _)| *round < r).map(|(_, q)| q));
    v
}

/// Number of certificates a Byzantine leader of round `r` can choose from in state `g`.
fn qc_options(s: &Search, g: &RState, z: usize, r: Round) -> usize {
    let k = know(s, g);
    known_qcs(s, &k, z, r).len()
}

fn apply_macro(s: &Search, g: &RState, z: usize, mac: &Macro) -> Option<(RState, Vec<Prim>)> {
    let w = s.world.clone();
    let r = mac.round as Round;
    let part: Vec<usize> = (0..MAXN).filter(|i| *i != mac.excl as usize).collect();
    let honest_part: Vec<usize> = part.iter().cloned().filter(|i| *i != z).collect();
    let byz_in = part.contains(&z);
    let mut x = Exec { s, g: g.clone(), prims: Vec::new(), z };
    let leader = w.ref_leader(r);
    let collector = w.ref_leader(r + 1);
    if matches!(mac.kind, Kind::Q | Kind::QT) {
        // the round's proposal(s): the honest leader's own, or one made by the Byzantine leader
        let mut props: Vec<MsgId> = Vec::new();
        if leader == z {
            if byz_in {
                let k = know(s, &x.g);
                let qcs = known_qcs(s, &k, z, r);
                if let Some(qc) = qcs.get(mac.qc_choice as usize).cloned() {
                    let tc = if qc.round + 1 == r { Some(None) } else { best_tc(s, &k, z, r - 1, true).map(Some) };
                    if let Some(tc) = tc {
                        let b = w.block(z, r, qc, tc, vec![]);
                        props.push(x.publish(ConsensusMessage::Propose(b)));
                    }
                }
            }
        } else if part.contains(&leader) {
            x.sync(leader, r);
            let k = know(s, &x.g);
            for (m, a) in k.proposals.get(&r).cloned().unwrap_or_default() {
                if a == w.name(leader) {
                    props.push(m);
                }
            }
        }
        if props.is_empty() {
            // no proposal can be shown: a Q step is impossible, a QT step is timeouts only
            if mac.kind == Kind::Q || mac.qc_choice != 0 {
                return None;
            }
        }
        for &p in &honest_part {
            if p == leader {
                continue;
            }
            for m in &props {
                x.deliver(p, *m);
            }
        }
        if byz_in {
            for m in &props {
                if let ConsensusMessage::Propose(b) = &s.uni.msg(*m).msg {
                    let v = w.vote(z, b);
                    x.publish(ConsensusMessage::Vote(v));
                }
            }
        }
        if !props.is_empty() && collector != z && part.contains(&collector) {
            let k = know(s, &x.g);
            for (m, a) in k.vote_msgs.get(&r).cloned().unwrap_or_default() {
                if w.index_of(&a).map_or(false, |i| part.contains(&i) && i != collector) {
                    x.deliver(collector, m);
                }
            }
        }
    }
    if matches!(mac.kind, Kind::T | Kind::QT) {
        for &p in &honest_part {
            x.sync(p, r);
            if x.round_of(p) == r {
                x.timer(p);
            }
        }
        if byz_in {
            let k = know(s, &x.g);
            let hq = if mac.claim_high { known_qcs(s, &k, z, r).last().cloned().unwrap_or_else(QC::genesis) } else { QC::genesis() };
            let t = w.timeout(z, r, hq);
            x.publish(ConsensusMessage::Timeout(t));
        }
        let k = know(s, &x.g);
        let tms: Vec<(MsgId, PublicKey)> = k.timeout_msgs.get(&r).cloned().unwrap_or_default();
        for &p in &honest_part {
            for (m, a) in &tms {
                if w.index_of(a).map_or(false, |i| part.contains(&i) && i != p) {
                    x.deliver(p, *m);
                }
            }
        }
    }
    let _ = x.z;
    Some((x.g, x.prims))
}

fn pack(steps_in_round: u8, dev: u8, excl: u8) -> u8 {
    (steps_in_round << 6) | (dev << 3) | excl
}
fn unpack(k: u8) -> (u8, u8, u8) {
    (k >> 6, (k >> 3) & 7, k & 7)
}

fn macros_from(s: &Search, g: &RState, cfg: &RoundsCfg, first: bool) -> Vec<(Macro, u8)> {
    let (sir, dev, last_excl) = unpack(g.k_used);
    let cur = g.t_used;
    let mut rounds: Vec<(u8, u8)> = Vec::new(); // (round, steps_in_round after the step)
    let repeat = !first && sir < 2 && cur >= 1;
    if repeat {
        rounds.push((cur, sir + 1));
    }
    if cur < cfg.max_round {
        rounds.push((cur + 1, 1));
    }
    let mut out = Vec::new();
    for (r, _) in &rounds {
        let byz_leads = s.world.ref_leader(*r as Round) == cfg.byz;
        let nq = if byz_leads { qc_options(s, g, cfg.byz, *r as Round) } else { 1 };
        for excl in 0..=(MAXN as u8) {
            let ndev = if first || excl == last_excl { dev } else { dev + 1 };
            if ndev > cfg.max_dev {
                continue;
            }
            // a second step in the same round is for a different set of participants
            if *r == cur && excl == last_excl {
                continue;
            }
            let byz_in = excl as usize != cfg.byz;
            for kind in [Kind::Q, Kind::QT] {
                let qn = if matches!(kind, Kind::Q | Kind::QT) { nq } else { 1 };
                let claims: &[bool] = if matches!(kind, Kind::T | Kind::QT) && byz_in { &[false, true] } else { &[false] };
                for qc_choice in 0..qn {
                    for &claim_high in claims {
                        out.push((Macro { round: *r, excl, kind, qc_choice: qc_choice as u8, claim_high }, ndev));
                    }
                }
            }
        }
    }
    out
}

pub struct RoundsStats {
    pub states: usize,
    pub macro_steps: u64,
    pub levels: Vec<usize>,
    pub completed: bool,
    pub cap_hit: Option<String>,
    pub wall_s: f64,
    pub validated_paths: u64,
    pub validated_steps: u64,
}

struct Rec {
    pred: u32,
    mac: Option<Macro>,
}

pub fn describe_macro(s: &Search, m: &Macro) -> String {
    let who = if m.excl as usize == MAXN { "all four members".to_string() } else { format!("all but n{}", m.excl) };
    let leader = s.world.ref_leader(m.round as Round);
    let kind = match m.kind {
        Kind::Q => "proposal and votes",
        Kind::T => "timeouts",
        Kind::QT => "proposal and votes (if a proposal can be shown), then timeouts",
    };
    format!(
        "round {} ({}; leader n{}): {}{}{}",
        m.round,
        who,
        leader,
        kind,
        if matches!(m.kind, Kind::Q | Kind::QT) && leader == s.cfg.byz.unwrap_or(9) { format!("; Byzantine proposal extends its known QC #{}", m.qc_choice) } else { String::new() },
        if m.claim_high { "; Byzantine timeout reveals its highest QC" } else { "" }
    )
}

pub fn new_search(cfg: &RoundsCfg) -> Search {
    Search::new(super::Cfg {
        name: format!("ROUNDS(byz=n{},R={})", cfg.byz, cfg.max_round),
        stakes: vec![1, 1, 1, 1],
        honest: (0..4).filter(|i| *i != cfg.byz).collect(),
        byz: Some(cfg.byz),
        strict: false,
        max_round: cfg.max_round as u64 + 1,
        t_budget: 0,
        k_budget: 0,
        deliver_sync: false,
        canon_certs: true,
        max_states: cfg.max_states,
        wall_cap_s: cfg.wall_cap_s,
        big_pool: true,
    })
}

pub fn run(rep: &mut Report, s: &Search, cfg: RoundsCfg) -> RoundsStats {
    let t0 = Instant::now();
    let mut pcfg = s.cfg.clone();
    pcfg.name = format!("ROUNDS(byz=n{},R={},deviations<={})", cfg.byz, cfg.max_round, cfg.max_dev);
    let mut g0 = RState { locals: [0; MAXN], pool: Vec::new(), t_used: 0, k_used: pack(0, 0, MAXN as u8) };
    for &i in &pcfg.honest {
        let (ln, res) = LiveNode::boot(&s.world, &s.uni, i);
        let lid = s.intern_local(res.key, None, &[]);
        g0.locals[i] = lid;
        for (m, d) in &res.out {
            let _ = d;
            g0.set(*m);
        }
        drop(ln);
    }
    let seen: Mutex<HashMap<RState, u32>> = Mutex::new(HashMap::new());
    let recs: Mutex<Vec<Rec>> = Mutex::new(Vec::new());
    seen.lock().unwrap().insert(g0.clone(), 0);
    recs.lock().unwrap().push(Rec { pred: 0, mac: None });
    let mut frontier: Vec<(RState, u32)> = vec![(g0.clone(), 0)];
    let mut levels = vec![1usize];
    let macro_steps = AtomicU64::new(0);
    let mut cap_hit = None;
    let mut completed = true;
    let conflict: Mutex<Option<(u32, Macro, usize, usize)>> = Mutex::new(None);
    for depth in 0..cfg.max_steps {
        let next: Mutex<Vec<(RState, u32)>> = Mutex::new(Vec::new());
        let idx = AtomicUsize::new(0);
        let stop = std::sync::atomic::AtomicBool::new(false);
        std::thread::scope(|scope| {
            for _ in 0..ncpu() {
                scope.spawn(|| {
                    loop {
                        let i = idx.fetch_add(1, Ordering::Relaxed);
                        if i >= frontier.len() || stop.load(Ordering::Relaxed) {
                            break;
                        }
                        if i % 64 == 0 && t0.elapsed().as_secs_f64() > cfg.wall_cap_s {
                            stop.store(true, Ordering::Relaxed);
                            break;
                        }
                        let (g, gi) = &frontier[i];
                        for (mac, ndev) in macros_from(s, g, &cfg, depth == 0) {
                            macro_steps.fetch_add(1, Ordering::Relaxed);
                            let (mut ng, _prims) = match apply_macro(s, g, cfg.byz, &mac) {
                                Some(x) => x,
                                None => continue,
                            };
                            if ng.locals == g.locals && ng.pool == g.pool {
                                continue;
                            }
                            let sir = if mac.round == g.t_used { unpack(g.k_used).0 + 1 } else { 1 };
                            ng.t_used = mac.round;
                            ng.k_used = pack(sir, ndev, mac.excl);
                            let id = {
                                let mut seen = seen.lock().unwrap();
                                if seen.contains_key(&ng) {
                                    continue;
                                }
                                let mut recs = recs.lock().unwrap();
                                let id = recs.len() as u32;
                                recs.push(Rec { pred: *gi, mac: Some(mac) });
                                seen.insert(ng.clone(), id);
                                id
                            };
                            // agreement among the honest nodes
                            let hs = &s.cfg.honest;
                            for a in 0..hs.len() {
                                for b in a + 1..hs.len() {
                                    if ng.locals[hs[a]] != g.locals[hs[a]] || ng.locals[hs[b]] != g.locals[hs[b]] {
                                        if !s.compatible(ng.locals[hs[a]], ng.locals[hs[b]]) {
                                            let mut c = conflict.lock().unwrap();
                                            if c.is_none() {
                                                *c = Some((id, mac, hs[a], hs[b]));
                                            }
                                            stop.store(true, Ordering::Relaxed);
                                        }
                                    }
                                }
                            }
                            next.lock().unwrap().push((ng, id));
                        }
                    }
                    super::clear_thread_cache();
                });
            }
        });
        let mut nx = next.into_inner().unwrap();
        nx.sort_by_key(|x| x.1);
        if stop.load(Ordering::Relaxed) && conflict.lock().unwrap().is_none() {
            levels.push(nx.len());
            cap_hit = Some(format!("wall cap {:.0}s reached inside macro-step level {} ({} states so far); levels before it are complete", cfg.wall_cap_s, depth + 1, recs.lock().unwrap().len()));
            completed = false;
            frontier = nx;
            break;
        }
        if nx.is_empty() {
            break;
        }
        levels.push(nx.len());
        frontier = nx;
        if conflict.lock().unwrap().is_some() {
            break;
        }
        let total = recs.lock().unwrap().len();
        if depth + 1 < cfg.max_steps && (total >= cfg.max_states || t0.elapsed().as_secs_f64() > cfg.wall_cap_s) {
            cap_hit = Some(format!("cap reached after {} macro-steps (states {} / wall {:.0}s)", depth + 1, total, t0.elapsed().as_secs_f64()));
            completed = false;
            break;
        }
    }
    // path reconstruction: macro list from the initial state, re-applied to recover the primitive events
    let path_of = |id: u32| -> Vec<Macro> {
        let recs = recs.lock().unwrap();
        let mut v = Vec::new();
        let mut cur = id;
        while let Some(m) = recs[cur as usize].mac {
            v.push(m);
            cur = recs[cur as usize].pred;
        }
        v.reverse();
        v
    };
    let prims_of = |macs: &[Macro]| -> (Vec<Prim>, Vec<RState>) {
        let mut g = g0.clone();
        let mut prims = Vec::new();
        let mut states = Vec::new();
        for m in macs {
            let (ng, p) = apply_macro(s, &g, cfg.byz, m).expect("recorded macro-step applies");
            prims.extend(p);
            g = ng;
            states.push(g.clone());
        }
        (prims, states)
    };
    let raw = |prims: &[Prim]| -> Vec<Value> {
        prims
            .iter()
            .map(|p| match p {
                Prim::Deliver(i, m) => json!({"node": i, "deliver": crate::util::hex(&s.uni.msg(*m).bytes)}),
                Prim::Timer(i) => json!({"node": i, "timer": true}),
            })
            .collect()
    };
    if let Some((id, _mac, a, b)) = conflict.lock().unwrap().clone() {
        let macs = path_of(id);
        let (prims, _) = prims_of(&macs);
        let what = format!("[{}] honest nodes n{} and n{} committed blocks that are not on one chain after the schedule: {}", pcfg.name, a, b, macs.iter().map(|m| describe_macro(s, m)).collect::<Vec<_>>().join(" | "));
        rep.violation(
            "agreement:conflicting-commits".into(),
            what,
            json!({"engine":"proto","config":pcfg.name,"kind":"global","honest":pcfg.honest,
                "events": macs.iter().map(|m| describe_macro(s, m)).collect::<Vec<_>>(),
                "events_raw": raw(&prims)}),
        );
    }
    for ((prop, sig), rec) in s.findings.lock().unwrap().iter() {
        let rec: &FindingRec = rec;
        let f: &Finding = rec.finding.as_ref().unwrap();
        if prop == "PANIC" {
            rep.violation(sig.clone(), format!("[{}] {}", pcfg.name, f.what), json!({"engine":"proto","config":pcfg.name,"kind":"local","node":rec.node,
                "events": rec.history.iter().map(|e| s.describe_ev(e)).collect::<Vec<_>>(),
                "events_raw": rec.history.iter().map(|e| s.raw_ev(e)).collect::<Vec<_>>()}));
        } else if prop != "C01" {
            rep.add("other_property_findings_seen", 1);
        }
    }
    // conformance: re-execute some of the deepest schedules on live nodes (all alive at once) and
    // compare every node's state key with the model after every macro-step
    let mut validated_paths = 0u64;
    let mut validated_steps = 0u64;
    let n = frontier.len();
    let picks: Vec<u32> = if n == 0 { vec![] } else { (0..3.min(n)).map(|k| frontier[k * n / 3.min(n)].1).collect() };
    for id in picks {
        let macs = path_of(id);
        let mut live: BTreeMap<usize, LiveNode> = BTreeMap::new();
        for &i in &pcfg.honest {
            live.insert(i, LiveNode::boot(&s.world, &s.uni, i).0);
        }
        let mut cur: BTreeMap<usize, LId> = pcfg.honest.iter().map(|i| (*i, g0.locals[*i])).collect();
        let mut g = g0.clone();
        for m in &macs {
            let (ng, prims) = apply_macro(s, &g, cfg.byz, m).expect("recorded macro-step applies");
            for p in &prims {
                let (i, ev) = match p {
                    Prim::Deliver(i, m) => (*i as usize, Ev::Deliver(*m)),
                    Prim::Timer(i) => (*i as usize, Ev::Timer),
                };
                let ln = live.get_mut(&i).unwrap();
                let res = ln.apply(&s.uni, ev);
                cur.insert(i, s.locals.intern(res.key, || ln.history.clone()));
                validated_steps += 1;
            }
            for &i in &pcfg.honest {
                if cur[&i] != ng.locals[i] {
                    machinery_error(&format!("rounds {}: live replay diverged from the model at macro-step {:?} on node n{}", pcfg.name, m, i));
                }
            }
            g = ng;
        }
        validated_paths += 1;
    }
    let states = recs.lock().unwrap().len();
    let st = RoundsStats { states, macro_steps: macro_steps.load(Ordering::Relaxed), levels: levels.clone(), completed, cap_hit: cap_hit.clone(), wall_s: t0.elapsed().as_secs_f64(), validated_paths, validated_steps };
    println!(
        "  {}: states={} macro-steps={} levels={:?} local_states={} real_steps={} msgs={} wall={:.1}s{}",
        pcfg.name,
        st.states,
        st.macro_steps,
        st.levels,
        s.locals.len(),
        s.real_steps.load(Ordering::Relaxed),
        s.uni.n_msgs(),
        st.wall_s,
        st.cap_hit.as_ref().map(|c| format!(" CAPPED: {}", c)).unwrap_or_default()
    );
    if std::env::var("HSV_DEBUG").is_ok() {
        eprintln!("debug: rebuilds={} replay_steps={} t_take={}ms t_apply={}ms", s.rebuilds.load(Ordering::Relaxed), s.replay_steps.load(Ordering::Relaxed), s.t_take.load(Ordering::Relaxed) / 1000, s.t_apply.load(Ordering::Relaxed) / 1000);
    }
    rep.add("states", st.states as u64);
    rep.add("transitions", s.transitions.load(Ordering::Relaxed));
    rep.add("real_node_steps", s.real_steps.load(Ordering::Relaxed));
    rep.add("replayed_node_steps_revalidated", s.replay_steps.load(Ordering::Relaxed));
    rep.add("live_system_paths_replayed", validated_paths);
    rep.add("traces_validated_against_impl", s.real_steps.load(Ordering::Relaxed) + s.replay_steps.load(Ordering::Relaxed) + validated_steps);
    let mut prev: Vec<Value> = rep.coverage.get("round_schedule_configs").and_then(|v| v.as_array().cloned()).unwrap_or_default();
    let commits_seen: usize = frontier.iter().filter(|(g, _)| pcfg.honest.iter().any(|i| !s.locals.get(g.locals[*i]).key.hist.commits.is_empty())).count();
    prev.push(json!({"config": pcfg.name, "states": st.states, "macro_steps_tried": st.macro_steps, "states_per_depth": st.levels, "completed": st.completed, "cap_hit": st.cap_hit,
        "local_states": s.locals.len(), "real_node_steps": s.real_steps.load(Ordering::Relaxed), "messages": s.uni.n_msgs(), "wall_s": st.wall_s,
        "deepest_level_states_with_a_commit": commits_seen, "live_paths_replayed": validated_paths}));
    rep.set("round_schedule_configs", Value::Array(prev));
    if rep.samples.len() < 4 {
        if let Some((_, id)) = frontier.first() {
            let macs = path_of(*id);
            rep.sample(json!({"config": pcfg.name, "one_deepest_schedule": macs.iter().map(|m| describe_macro(s, m)).collect::<Vec<_>>()}));
        }
    }
    st
}

pub fn run_c01(rep: &mut Report, tier: Tier) {
    let envu = |k: &str, d: u8| std::env::var(k).ok().and_then(|v| v.parse::<u8>().ok()).unwrap_or(d);
    let max_round = envu("HSV_ROUNDS_R", tier.pick(5, 7));
    let max_dev = envu("HSV_ROUNDS_D", tier.pick(1, 2));
    let byzs: Vec<usize> = tier.pick(vec![2], vec![2, 0, 1, 3]);
    for z in byzs {
        let mk = |dev: u8| RoundsCfg {
            byz: z,
            max_round,
            max_steps: 2 * max_round as usize,
            max_dev: dev,
            max_states: tier.pick(300_000, 8_000_000),
            // a run with a larger deviation bound reaches its counterexamples at shallower levels, so
            // every bound is run even if a smaller one was capped; the largest gets the largest budget
            wall_cap_s: tier.pick(20.0, if dev >= 2 { 360.0 } else { 180.0 }),
        };
        let search = new_search(&mk(max_dev));
        for dev in 0..=max_dev {
            let st = run(rep, &search, mk(dev));
            if !st.completed {
                rep.set("exhaustive", json!(false));
            }
        }
    }
    rep.set("round_schedule_rule", json!("macro-step = (round r: the next one, or the current one once more for a different set of participants; member left behind: nobody or any one of the four; kind: proposal+votes | proposal+votes (when a proposal can be shown) followed by timeouts of the participants still in the round; Byzantine leader: which known or formable QC it extends, with the most permissive TC it can show; Byzantine timeout: genesis QC or its highest QC). Participants are first brought to round r with a TC / QC-carrying timeout on the wire if there is one. Deviation = change of the member left behind; the bound is iterated from 0. States deduplicated on (honest local states, messages on the wire, round, steps in round, deviations, member left behind); bounds are functions of the state, so the search is exhaustive for the family within (R, deviations) when not capped."));
}
