// A live real consensus node plus the history variables; one `apply` = the node's quiescent
// reaction to one external event, with all local monitors evaluated on it.
use super::universe::*;
use crate::driver::{consensus_frame_needs_ack, Node, NodeCfg};
use crate::world::{is_genesis_qc, short, World, CONSENSUS_PORT0};
use consensus::verif::{ConsensusMessage, CoreSnapshot, Round};
use consensus::{Block, QC, TC};
use crypto::{Digest, Hash as _};
use std::collections::{BTreeMap, BTreeSet};
use std::sync::Arc;

/// A local monitor finding: (property, signature, description).
#[derive(Clone, Debug, PartialEq, Eq, Hash)]
pub struct Finding {
    pub property: &'static str,
    pub signature: String,
    pub what: String,
}

/// Witness flags (non-vacuity), set per local transition.
#[derive(Clone, Debug, Default, PartialEq, Eq)]
pub struct Witness {
    pub commit: bool,
    pub commit_with_1_ancestor: bool,
    pub commit_with_2_ancestors: bool,
    pub commit_gap_above_watermark: bool,
    pub first_commit_not_round1: bool,
    pub tc_assembled: bool,
    pub qc_assembled: bool,
    pub vote_tc_justified: bool,
    pub vote_on_wire: bool,
    pub vote_as_next_leader: bool,
    pub parked: bool,
    pub resumed: bool,
    pub timeout_sent: bool,
    pub proposal_with_tc: bool,
    pub proposal_rejected_no_vote: bool,
    pub proposal_after_timeout: bool,
    pub duplicate_vote_rejected: bool,
    pub round_jump: bool,
}

impl Witness {
    pub fn names() -> Vec<&'static str> {
        vec![
            "commit", "commit_with_1_ancestor", "commit_with_2_ancestors", "commit_gap_above_watermark",
            "first_commit_not_round1", "tc_assembled", "qc_assembled", "vote_tc_justified", "vote_on_wire",
            "vote_as_next_leader", "parked", "resumed", "timeout_sent", "proposal_with_tc",
            "proposal_rejected_no_vote", "proposal_after_timeout", "duplicate_vote_rejected", "round_jump",
        ]
    }
    pub fn flags(&self) -> Vec<bool> {
        vec![
            self.commit, self.commit_with_1_ancestor, self.commit_with_2_ancestors, self.commit_gap_above_watermark,
            self.first_commit_not_round1, self.tc_assembled, self.qc_assembled, self.vote_tc_justified, self.vote_on_wire,
            self.vote_as_next_leader, self.parked, self.resumed, self.timeout_sent, self.proposal_with_tc,
            self.proposal_rejected_no_vote, self.proposal_after_timeout, self.duplicate_vote_rejected, self.round_jump,
        ]
    }
}

pub struct StepResult {
    pub key: LocalKey,
    /// (message, destination node index), sorted, deduplicated
    pub out: Vec<(MsgId, u8)>,
    pub findings: Vec<Finding>,
    pub witness: Witness,
}

pub struct LiveNode {
    pub node: Node,
    pub idx: usize,
    pub world: Arc<World>,
    pub snap: CoreSnapshot,
    pub stored: BTreeSet<Digest>,
    pub stored_map: BTreeMap<Digest, u64>,
    pub delivered_ok: BTreeMap<Digest, u64>,
    pub odd: BTreeSet<Digest>,
    pub batches: BTreeSet<u8>,
    pub pending_digests: BTreeSet<u8>,
    pub hist: Hist,
    pub panicked: bool,
    pub history: Vec<Ev>,
    pub boot_out: Vec<(MsgId, u8)>,
}

/// Digest pre-stored in every node's store so that Byzantine payload variants are "available".
/// Digest of payload batch k (NOT pre-stored: it arrives with `Ev::Batch(k)`).
pub fn payload_digest(k: u8) -> Digest {
    Digest([0xC0u8.wrapping_add(k); 32])
}

/// Digest k of the node's own mempool (handed to its proposer with `Ev::Digest(k)`).
pub fn own_digest(k: u8) -> Digest {
    Digest([0xD0u8.wrapping_add(k); 32])
}

pub fn variant_payload() -> Digest {
    Digest([0xAB; 32])
}

fn vote_digest(hash: &Digest, round: Round) -> Digest {
    QC { hash: hash.clone(), round, votes: Vec::new() }.digest()
}

impl LiveNode {
    pub fn boot(world: &Arc<World>, uni: &Universe, idx: usize) -> (Self, StepResult) {
        let mut node = Node::boot(world, NodeCfg::consensus_only(idx));
        node.mem
            .as_ref()
            .unwrap()
            .lock()
            .unwrap()
            .insert(variant_payload().to_vec(), b"variant".to_vec());
        let snap = node.snapshot().expect("core snapshot published at boot");
        let mut ln = Self {
            node,
            idx,
            world: world.clone(),
            snap: canon_snapshot(&snap, uni.canon_certs),
            stored: BTreeSet::new(),
            stored_map: BTreeMap::new(),
            delivered_ok: BTreeMap::new(),
            odd: BTreeSet::new(),
            batches: BTreeSet::new(),
            pending_digests: BTreeSet::new(),
            hist: Hist::default(),
            panicked: false,
            history: Vec::new(),
            boot_out: Vec::new(),
        };
        let res = ln.observe(uni, None);
        ln.boot_out = res.out.clone();
        (ln, res)
    }

    pub fn key(&self) -> LocalKey {
        LocalKey {
            node: self.idx as u8,
            snap: self.snap.clone(),
            stored: self.stored_map.clone(),
            parked: self.delivered_ok.iter().filter(|(d, _)| !self.stored.contains(*d)).map(|(d, h)| (d.clone(), *h)).collect(),
            batches: self.batches.clone(),
            pending_digests: self.pending_digests.clone(),
            odd: self.odd.clone(),
            hist: self.hist.clone(),
            panicked: self.panicked,
        }
    }

    pub fn apply(&mut self, uni: &Universe, ev: Ev) -> StepResult {
        self.history.push(ev);
        match ev {
            Ev::Deliver(m) => {
                let info = uni.msg(m);
                let port = CONSENSUS_PORT0 + self.idx as u16;
                self.node.deliver(port, &info.bytes);
                self.observe(uni, Some(&info.msg))
            }
            Ev::Timer => {
                self.node.fire_timer();
                self.observe(uni, None)
            }
            Ev::Batch(k) => {
                let mut store = self.node.store.clone();
                let key = payload_digest(k).to_vec();
                self.node.rt.block_on(async move { store.write(key, b"batch".to_vec()).await });
                self.batches.insert(k);
                self.observe(uni, None)
            }
            Ev::Digest(k) => {
                if let Some(tx) = self.node.tx_digest.clone() {
                    let d = own_digest(k);
                    self.node.rt.block_on(async move {
                        let _ = tx.send(d).await;
                    });
                    self.pending_digests.insert(k);
                }
                self.observe(uni, None)
            }
        }
    }

    /// digest -> hash of the (canonical) stored bytes: two variants of one block that differ in the
    /// signer set of the embedded certificate are different store contents (the Helper serves them).
    fn read_stored_blocks(&self, uni: &Universe) -> BTreeMap<Digest, (u64, Block)> {
        let mut s = BTreeMap::new();
        let map = self.node.mem.as_ref().unwrap().lock().unwrap();
        for (k, v) in map.iter() {
            if k.len() == 32 {
                if let Ok(b) = bincode::deserialize::<Block>(v) {
                    if b.digest().to_vec() == *k {
                        let canon = canon_msg(&ConsensusMessage::Propose(b.clone()), uni.canon_certs);
                        s.insert(b.digest(), (crate::util::hash64(&canon), b));
                    }
                }
            }
        }
        s
    }

    /// Run to quiescence, gather everything observable, update history variables, run monitors.
    fn observe(&mut self, uni: &Universe, delivered: Option<&ConsensusMessage>) -> StepResult {
        let w = self.world.clone();
        let me = self.idx;
        let my_name = w.name(me);
        let frames = self.node.settle(&consensus_frame_needs_ack);
        let commits = self.node.commits();
        let mempool_cmds = self.node.mempool_cmds();
        let asked_mempool = mempool_cmds.iter().any(|c| matches!(c, mempool::ConsensusMempoolMessage::Synchronize(..)));
        let panics = self.node.rt.panics();
        let pre = self.snap.clone();
        let pre_hist = self.hist.clone();
        let pre_stored = self.stored.clone();
        let post_raw = self.node.snapshot().expect("snapshot");
        let post = canon_snapshot(&post_raw, uni.canon_certs);
        let post_stored_full = self.read_stored_blocks(uni);
        let post_stored_map: BTreeMap<Digest, u64> = post_stored_full.iter().map(|(k, v)| (k.clone(), v.0)).collect();
        let post_stored: BTreeSet<Digest> = post_stored_map.keys().cloned().collect();
        let mut findings: Vec<Finding> = Vec::new();
        let mut wit = Witness::default();
        let mut find = |p: &'static str, sig: String, what: String| {
            findings.push(Finding { property: p, signature: sig, what });
        };

        if !panics.is_empty() {
            self.panicked = true;
            for p in &panics {
                let site = p.rsplit(" @ ").next().unwrap_or("").to_string();
                find("PANIC", format!("panic:{}", site), format!("node n{} panicked: {}", me, p));
            }
        }

        // ---- decode outputs ----
        let mut out: BTreeSet<(MsgId, u8)> = BTreeSet::new();
        let mut own_votes: Vec<(Digest, Round)> = Vec::new(); // wire votes
        let mut own_timeouts = Vec::new();
        let mut own_proposals: Vec<Block> = Vec::new();
        let mut sent_tcs: Vec<TC> = Vec::new();
        for f in &frames {
            let dst = (f.dst.port().wrapping_sub(CONSENSUS_PORT0)) as u8;
            let msg: ConsensusMessage = match bincode::deserialize(&f.bytes) {
                Ok(m) => m,
                Err(_) => {
                    find("PANIC", "undecodable-output".into(), format!("node n{} emitted an undecodable frame", me));
                    continue;
                }
            };
            match &msg {
                ConsensusMessage::Vote(v) if v.author == my_name => {
                    if !own_votes.contains(&(v.hash.clone(), v.round)) {
                        own_votes.push((v.hash.clone(), v.round));
                    }
                }
                ConsensusMessage::Timeout(t) if t.author == my_name => {
                    if !own_timeouts.iter().any(|x: &consensus::verif::Timeout| x.round == t.round && x.high_qc.round == t.high_qc.round) {
                        own_timeouts.push(t.clone());
                    }
                }
                ConsensusMessage::Propose(b) if b.author == my_name => {
                    if !own_proposals.iter().any(|x| x.digest() == b.digest()) {
                        own_proposals.push(b.clone());
                    }
                }
                ConsensusMessage::TC(tc) => {
                    if !sent_tcs.iter().any(|x| x.round == tc.round) {
                        sent_tcs.push(tc.clone());
                    }
                }
                _ => {}
            }
            let id = uni.intern(msg);
            out.insert((id, dst));
        }
        for b in &commits {
            uni.note_block(b);
        }
        for b in &own_proposals {
            let gone: Vec<u8> = self.pending_digests.iter().cloned().filter(|k| b.payload.contains(&own_digest(*k))).collect();
            for k in gone {
                self.pending_digests.remove(&k);
            }
        }

        // ---- delivered message bookkeeping ----
        let mut delivered_block: Option<&Block> = None;
        if let Some(ConsensusMessage::Propose(b)) = delivered {
            delivered_block = Some(b);
            let acceptable = w.ref_valid_block(b) && b.author == w.name(w.ref_leader(b.round));
            if acceptable {
                let canon = canon_msg(&ConsensusMessage::Propose(b.clone()), uni.canon_certs);
                self.delivered_ok.entry(b.digest()).or_insert(crate::util::hash64(&canon));
            }
        }

        // own votes cast as next leader: own name newly in an aggregator entry, or in a freshly
        // assembled high QC for a block not voted before
        let mut leader_votes: Vec<(Digest, Round)> = Vec::new();
        {
            for (round, vd, _w, signers) in &post.votes {
                if signers.contains(&my_name) {
                    let before = pre.votes.iter().any(|(r, d, _, s)| r == round && d == vd && s.contains(&my_name));
                    // its own earlier wire vote handed back to it is not a new signature
                    let echoed = matches!(delivered, Some(ConsensusMessage::Vote(v)) if v.author == my_name && vote_digest(&v.hash, v.round) == *vd);
                    if !before && !echoed {
                        match uni.block_by_vote_digest(vd) {
                            Some(b) => leader_votes.push((b.digest(), *round)),
                            None => leader_votes.push((vd.clone(), *round)),
                        }
                    }
                }
            }
        }
        let high_qc_changed = post.high_qc_hash != pre.high_qc_hash || post.high_qc_round != pre.high_qc_round;
        // Was the new high QC contained in the delivered message?
        let qcs_in_delivered: Vec<&QC> = match delivered {
            Some(ConsensusMessage::Propose(b)) => vec![&b.qc],
            Some(ConsensusMessage::Timeout(t)) => vec![&t.high_qc],
            _ => vec![],
        };
        let mut qc_assembled_here: Option<(Digest, Round, Vec<usize>)> = None;
        if high_qc_changed {
            let from_msg = qcs_in_delivered
                .iter()
                .any(|q| q.hash == post.high_qc_hash && q.round == post.high_qc_round);
            // parked blocks resumed in this step also carry QCs that were already processed when
            // they were first delivered, so they cannot be the source of a *new* high QC.
            if !from_msg {
                let signers: Vec<usize> = post.high_qc_signers.iter().filter_map(|k| w.index_of(k)).collect();
                qc_assembled_here = Some((post.high_qc_hash.clone(), post.high_qc_round, signers.clone()));
                if signers.contains(&me)
                    && pre_hist.votes.get(&post.high_qc_round) != Some(&post.high_qc_hash)
                    && !own_votes.contains(&(post.high_qc_hash.clone(), post.high_qc_round))
                    && !leader_votes.contains(&(post.high_qc_hash.clone(), post.high_qc_round))
                {
                    leader_votes.push((post.high_qc_hash.clone(), post.high_qc_round));
                }
            }
        }

        // ---- C03 / C09 / C10(iii): votes ----
        let mut all_votes: Vec<(Digest, Round, bool)> = own_votes.iter().map(|(h, r)| (h.clone(), *r, true)).collect();
        all_votes.extend(leader_votes.iter().map(|(h, r)| (h.clone(), *r, false)));
        all_votes.sort_by_key(|v| v.1);
        for (hash, round, wire) in &all_votes {
            if *wire {
                wit.vote_on_wire = true;
            } else {
                wit.vote_as_next_leader = true;
            }
            let max_prev = self.hist.votes.keys().next_back().cloned();
            if let Some(prev_block) = self.hist.votes.get(round) {
                if prev_block != hash {
                    find("C03", "vote:two-votes-one-round".into(), format!("n{} voted twice in round {}: {} and {}", me, round, short(prev_block), short(hash)));
                } else {
                    find("C03", "vote:repeated".into(), format!("n{} signed a second vote for round {} ({})", me, round, short(hash)));
                }
            } else if let Some(mp) = max_prev {
                if *round <= mp {
                    find("C03", "vote:round-not-increasing".into(), format!("n{} voted for round {} after voting for round {}", me, round, mp));
                }
            }
            if self.hist.timeouts.contains(round) {
                find("C03", "vote:after-timeout".into(), format!("n{} voted in round {} after issuing a timeout for it", me, round));
            }
            let voted_instance: Option<Arc<Block>> = post_stored_full.get(hash).map(|v| Arc::new(v.1.clone())).or_else(|| uni.block(hash));
            match voted_instance {
                Some(b) => {
                    if b.round != *round {
                        find("C03", "vote:round-mismatch".into(), format!("n{} vote round {} != block round {}", me, round, b.round));
                    }
                    let rule_qc = b.qc.round + 1 == b.round;
                    let rule_tc = match &b.tc {
                        Some(tc) => {
                            let maxh = tc.votes.iter().map(|(_, _, h)| *h).max().unwrap_or(0);
                            tc.round + 1 == b.round && maxh <= b.qc.round
                        }
                        None => false,
                    };
                    if !(rule_qc || rule_tc) {
                        find("C03", "vote:unsafe-extension".into(), format!("n{} voted for {} which neither extends a QC of round {} nor is TC-justified", me, uni.desc_block(&b), b.round.wrapping_sub(1)));
                    }
                    if !(b.qc.round < b.round) {
                        find("C03", "vote:qc-not-lower".into(), format!("n{} voted for {} whose QC round is not lower than its round", me, uni.desc_block(&b)));
                    }
                    if !rule_qc && rule_tc {
                        wit.vote_tc_justified = true;
                    }
                    // C09: only the leader's correctly signed blocks
                    if b.author != w.name(w.ref_leader(b.round)) {
                        find("C09", "vote:not-leader-block".into(), format!("n{} voted for {} whose author is not the leader of round {}", me, uni.desc_block(&b), b.round));
                    }
                    if !crate::world::ref_sig_ok(&b.digest(), &b.author, &b.signature) {
                        find("C09", "vote:badly-signed-block".into(), format!("n{} voted for {} whose signature does not verify", me, uni.desc_block(&b)));
                    }
                    // C04-style: the voted block must be entirely valid
                    if !w.ref_valid_block(&b) {
                        find("C04", "vote:invalid-block".into(), format!("n{} voted for invalid block {}", me, uni.desc_block(&b)));
                    }
                    self.hist.max_qc_voted = self.hist.max_qc_voted.max(b.qc.round);
                }
                None => {
                    find("C03", "vote:unknown-block".into(), format!("n{} voted for a block {} nobody proposed", me, short(hash)));
                }
            }
            self.hist.votes.entry(*round).or_insert_with(|| hash.clone());
        }

        // ---- timeouts ----
        for t in &own_timeouts {
            wit.timeout_sent = true;
            if t.high_qc.round < pre_hist.max_qc_voted.max(self.hist.max_qc_voted) {
                find("C10", "timeout:hqc-below-voted".into(), format!("n{} timeout for round {} carries QC round {} < QC round {} of a block it voted for", me, t.round, t.high_qc.round, self.hist.max_qc_voted));
            }
            if t.high_qc.round < pre_hist.max_qc_sent {
                find("C10", "timeout:hqc-below-sent".into(), format!("n{} timeout for round {} carries QC round {} < QC round {} it sent before", me, t.round, t.high_qc.round, pre_hist.max_qc_sent));
            }
            if !w.ref_valid_qc(&t.high_qc) {
                find("C19", "sent:invalid-qc-in-timeout".into(), format!("n{} sent a timeout carrying an invalid {}", me, uni.desc_qc(&t.high_qc)));
            }
            if !w.ref_valid_timeout(t) {
                find("C19", "sent:invalid-timeout".into(), format!("n{} sent an invalid timeout for round {}", me, t.round));
            }
            self.hist.timeouts.insert(t.round);
            self.hist.max_qc_sent = self.hist.max_qc_sent.max(t.high_qc.round);
        }

        // ---- own proposals ----
        for b in &own_proposals {
            if b.tc.is_some() {
                wit.proposal_with_tc = true;
            }
            let set = self.hist.proposals.entry(b.round).or_default();
            set.insert(b.digest());
            if set.len() > 1 {
                find("C09", "propose:equivocation".into(), format!("n{} signed {} different proposals for round {}", me, set.len(), b.round));
            }
            if b.author != w.name(w.ref_leader(b.round)) {
                find("C09", "propose:not-leader".into(), format!("n{} proposed for round {} which it does not lead", me, b.round));
            }
            if !w.ref_valid_qc(&b.qc) {
                find("C19", "sent:invalid-qc-in-proposal".into(), format!("n{} proposed {} carrying an invalid QC", me, uni.desc_block(b)));
            }
            if let Some(tc) = &b.tc {
                if !w.ref_valid_tc(tc) {
                    find("C19", "sent:invalid-tc-in-proposal".into(), format!("n{} proposed {} carrying an invalid TC", me, uni.desc_block(b)));
                }
            }
            self.hist.max_qc_sent = self.hist.max_qc_sent.max(b.qc.round);
        }
        for tc in &sent_tcs {
            if !w.ref_valid_tc(tc) {
                find("C19", "sent:invalid-tc".into(), format!("n{} broadcast an invalid {}", me, uni.desc_tc(tc)));
            }
        }

        // ---- C19 assembled: reference aggregator ----
        let q = w.ref_quorum();
        let stake = |set: &mut dyn Iterator<Item = usize>| -> u64 { set.map(|i| w.stakes[i] as u64).sum() };
        // votes that count: delivered valid vote for a round the node had not left, plus own leader votes
        let mut ref_vote_events: Vec<(Round, Digest, usize)> = Vec::new();
        if let Some(ConsensusMessage::Vote(v)) = delivered {
            if v.round >= pre.round && w.ref_valid_vote(v) {
                if let Some(a) = w.index_of(&v.author) {
                    ref_vote_events.push((v.round, v.hash.clone(), a));
                }
            }
        }
        for (h, r) in &leader_votes {
            ref_vote_events.insert(0, (*r, h.clone(), me));
        }
        let mut ref_qc_crossed: Vec<(Round, Digest, BTreeSet<usize>)> = Vec::new();
        for (r, h, a) in ref_vote_events {
            let e = self.hist.ref_votes.entry((r, h.clone())).or_default();
            let before = stake(&mut e.iter().cloned());
            if e.contains(&a) {
                wit.duplicate_vote_rejected = true;
                continue;
            }
            e.insert(a);
            let after = stake(&mut e.iter().cloned());
            if before < q && after >= q {
                ref_qc_crossed.push((r, h, e.clone()));
            }
        }
        let mut ref_tc_crossed: Vec<(Round, BTreeMap<usize, Round>)> = Vec::new();
        let mut timeout_events: Vec<(Round, usize, Round)> = Vec::new();
        for t in &own_timeouts {
            timeout_events.push((t.round, me, t.high_qc.round));
        }
        if let Some(ConsensusMessage::Timeout(t)) = delivered {
            // the node's round may have been advanced by the QC embedded in this very timeout
            // before it is counted; the code compares with the round *before* processing it.
            if t.round >= pre.round && w.ref_valid_timeout(t) {
                // The embedded QC is processed first; if it makes the node leave rounds, the
                // partial certificates of the rounds left are discarded before this timeout counts.
                if t.high_qc.round >= pre.round {
                    let mid = t.high_qc.round + 1;
                    self.hist.ref_votes.retain(|(r, _), _| *r >= mid);
                    self.hist.ref_timeouts.retain(|r, _| *r >= mid);
                }
                if let Some(a) = w.index_of(&t.author) {
                    timeout_events.push((t.round, a, t.high_qc.round));
                }
            }
        }
        for (r, a, h) in timeout_events {
            let e = self.hist.ref_timeouts.entry(r).or_default();
            let before = stake(&mut e.keys().cloned());
            if e.contains_key(&a) {
                continue;
            }
            e.insert(a, h);
            let after = stake(&mut e.keys().cloned());
            if before < q && after >= q {
                ref_tc_crossed.push((r, e.clone()));
            }
        }
        // what the code assembled in this step
        if let Some((h, r, signers)) = &qc_assembled_here {
            wit.qc_assembled = true;
            let sset: BTreeSet<usize> = signers.iter().cloned().collect();
            if sset.len() != signers.len() || sset.len() != post.high_qc_signers.len() {
                find("C19", "assembled:qc-duplicate-or-unknown-signer".into(), format!("n{} assembled a QC for r{} {} with repeated or non-member signers", me, r, short(h)));
            }
            if stake(&mut sset.iter().cloned()) < q {
                find("C19", "assembled:qc-below-quorum".into(), format!("n{} assembled a QC for r{} {} with stake {} < quorum {}", me, r, short(h), stake(&mut sset.iter().cloned()), q));
            }
            match ref_qc_crossed.iter().find(|(rr, hh, _)| rr == r && hh == h) {
                Some((_, _, refset)) => {
                    if *refset != sset {
                        find("C19", "assembled:qc-signers-differ".into(), format!("n{} assembled a QC for r{} {} signed by {:?} but received matching votes from {:?}", me, r, short(h), sset, refset));
                    }
                }
                None => {
                    find("C19", "assembled:qc-without-quorum-of-votes".into(), format!("n{} assembled a QC for r{} {} (signers {:?}) although the matching verified votes it received did not just reach quorum", me, r, short(h), sset));
                }
            }
            if !self.hist.assembled_qcs.insert((*r, h.clone())) {
                find("C19", "assembled:qc-twice".into(), format!("n{} assembled a second QC for r{} {}", me, r, short(h)));
            }
        }
        for (r, h, refset) in &ref_qc_crossed {
            let ok = matches!(&qc_assembled_here, Some((hh, rr, _)) if hh == h && rr == r);
            if !ok {
                find("C19", "assembled:qc-missing".into(), format!("n{} received matching verified votes from {:?} for r{} {} (quorum) but assembled no QC", me, refset, r, short(h)));
            }
        }
        for tc in &sent_tcs {
            // a TC broadcast by the node in this step = assembled by it
            wit.tc_assembled = true;
            let sset: BTreeSet<usize> = tc.votes.iter().filter_map(|(k, _, _)| w.index_of(k)).collect();
            if sset.len() != tc.votes.len() {
                find("C19", "assembled:tc-duplicate-or-unknown-signer".into(), format!("n{} assembled {} with repeated or non-member signers", me, uni.desc_tc(tc)));
            }
            match ref_tc_crossed.iter().find(|(rr, _)| *rr == tc.round) {
                Some((_, refmap)) => {
                    let got: BTreeMap<usize, Round> = tc.votes.iter().filter_map(|(k, _, h)| w.index_of(k).map(|i| (i, *h))).collect();
                    if got != *refmap {
                        find("C19", "assembled:tc-entries-differ".into(), format!("n{} assembled {} but the timeouts it received for that round were {:?}", me, uni.desc_tc(tc), refmap));
                    }
                }
                None => find("C19", "assembled:tc-without-quorum-of-timeouts".into(), format!("n{} assembled {} although the verified timeouts it received for that round did not just reach quorum", me, uni.desc_tc(tc))),
            }
            if !self.hist.assembled_tcs.insert(tc.round) {
                find("C19", "assembled:tc-twice".into(), format!("n{} assembled a second TC for round {}", me, tc.round));
            }
        }
        for (r, refmap) in &ref_tc_crossed {
            if !sent_tcs.iter().any(|t| t.round == *r) {
                find("C19", "assembled:tc-missing".into(), format!("n{} received verified timeouts {:?} for round {} (quorum) but assembled no TC", me, refmap, r));
            }
        }

        // ---- C10 (i),(ii): round monotone and evidence-based ----
        if post.round < pre.round {
            find("C10", "round:decreased".into(), format!("n{} round went from {} to {}", me, pre.round, post.round));
        }
        if post.round > pre.round {
            let r = post.round - 1;
            if post.round > pre.round + 1 {
                wit.round_jump = true;
            }
            let mut evidence = false;
            for qc in &qcs_in_delivered {
                if qc.round == r && !is_genesis_qc(qc) && w.ref_valid_qc(qc) {
                    evidence = true;
                }
            }
            match delivered {
                Some(ConsensusMessage::Propose(b)) => {
                    if let Some(tc) = &b.tc {
                        if tc.round == r && w.ref_valid_tc(tc) {
                            evidence = true;
                        }
                    }
                }
                Some(ConsensusMessage::TC(tc)) => {
                    if tc.round == r && w.ref_valid_tc(tc) {
                        evidence = true;
                    }
                }
                _ => {}
            }
            if let Some((_, qr, signers)) = &qc_assembled_here {
                let sset: BTreeSet<usize> = signers.iter().cloned().collect();
                if *qr == r && stake(&mut sset.iter().cloned()) >= q {
                    evidence = true;
                }
            }
            for tc in &sent_tcs {
                if tc.round == r && w.ref_valid_tc(tc) {
                    evidence = true;
                }
            }
            for b in &own_proposals {
                if b.qc.round == r && w.ref_valid_qc(&b.qc) {
                    evidence = true;
                }
                if let Some(tc) = &b.tc {
                    if tc.round == r && w.ref_valid_tc(tc) {
                        evidence = true;
                    }
                }
            }
            if !evidence {
                find("C10", "round:advanced-without-certificate".into(), format!("n{} entered round {} without holding a QC or TC for round {}", me, post.round, r));
            }
        }

        // ---- commits: C02, C05 ----
        if !commits.is_empty() {
            wit.commit = true;
            let genesis = Block::genesis().digest();
            // C02
            let first_ever = self.hist.commits.is_empty();
            let mut prev: Option<Digest> = self.hist.commits.last().cloned();
            for b in &commits {
                let d = b.digest();
                if d == genesis {
                    find("C02", "commit:genesis-delivered".into(), format!("n{} delivered the genesis placeholder to the application", me));
                } else if self.hist.commits.contains(&d) {
                    find("C02", "commit:duplicate".into(), format!("n{} delivered block {} (round {}) twice", me, short(&d), b.round));
                } else {
                    let parent_ok = match &prev {
                        None => is_genesis_qc(&b.qc),
                        Some(p) => !is_genesis_qc(&b.qc) && b.qc.hash == *p,
                    };
                    if !parent_ok {
                        let kind = match &prev {
                            None => "commit:first-not-child-of-genesis",
                            Some(p) if uni.is_ancestor(&d, p) => "commit:ancestor-after-descendant",
                            Some(p) if uni.is_ancestor(p, &d) => "commit:skipped-ancestor",
                            Some(_) => "commit:not-child-of-previous",
                        };
                        find("C02", kind.into(), format!("n{} delivered block {} (round {}) whose parent is not the block delivered before it ({})", me, short(&d), b.round, prev.as_ref().map(short).unwrap_or_else(|| "nothing yet".into())));
                    }
                }
                self.hist.commits.push(d.clone());
                prev = Some(d);
            }
            if first_ever && commits[0].round != 1 {
                wit.first_commit_not_round1 = true;
            }
            if commits.len() == 2 {
                wit.commit_with_1_ancestor = true;
            }
            if commits.len() >= 3 {
                wit.commit_with_2_ancestors = true;
            }
            // C05: head = highest round in the burst
            let head = commits.iter().max_by_key(|b| b.round).unwrap();
            let hd = head.digest();
            if !is_genesis_qc(&head.qc) && pre.last_committed_round > 0 {
                if let Some(p) = uni.block(&head.qc.hash) {
                    if p.round == pre.last_committed_round && head.round > p.round + 1 {
                        wit.commit_gap_above_watermark = true;
                    }
                }
            }
            let mut candidates: Vec<Arc<Block>> = Vec::new();
            if let Some(b) = delivered_block {
                candidates.push(Arc::new(b.clone()));
            }
            for (d, v) in post_stored_full.iter() {
                if self.stored_map.get(d) != Some(&v.0) {
                    candidates.push(Arc::new(v.1.clone()));
                }
            }
            for b in &own_proposals {
                candidates.push(Arc::new(b.clone()));
            }
            let mut justified = false;
            for c in &candidates {
                if is_genesis_qc(&c.qc) || !w.ref_valid_qc(&c.qc) {
                    continue;
                }
                if let Some(b1) = uni.block(&c.qc.hash) {
                    if !is_genesis_qc(&b1.qc) && b1.qc.hash == hd && b1.round == head.round + 1 && c.qc.round == b1.round {
                        justified = true;
                    }
                }
            }
            if hd != genesis && !justified {
                let sig = if candidates.is_empty() { "commit:no-carrier" } else { "commit:no-certified-2-chain" };
                find("C05", sig.into(), format!("n{} committed {} but no block processed in this step carries a valid QC for a child of it in round {}", me, uni.desc_block(head), head.round + 1));
            }
            for b in &commits {
                let d = b.digest();
                if d != hd && d != genesis && !uni.is_ancestor(&d, &hd) {
                    find("C05", "commit:non-ancestor-in-burst".into(), format!("n{} committed {} together with head {} of which it is not an ancestor", me, short(&d), short(&hd)));
                }
            }
        }

        // ---- witnesses about parking / rejection ----
        if let Some(b) = delivered_block {
            let d = b.digest();
            let acceptable = self.delivered_ok.contains_key(&d);
            if acceptable && !post_stored.contains(&d) {
                wit.parked = true;
            }
            if acceptable && post_stored.contains(&d) && !pre_stored.contains(&d) && all_votes.is_empty() {
                wit.proposal_rejected_no_vote = true;
            }
            if acceptable && pre_hist.timeouts.contains(&b.round) {
                wit.proposal_after_timeout = true;
            }
            if !acceptable {
                let reacted = !frames.is_empty() || !commits.is_empty() || post != pre || post_stored != pre_stored || asked_mempool;
                if reacted {
                    self.odd.insert(d);
                    find("C04", "reacted-to-invalid-proposal".into(), format!("n{} reacted to a proposal that is invalid or not from the round's leader: {}", me, uni.desc_block(b)));
                }
            }
        }
        for d in post_stored.difference(&pre_stored) {
            if delivered_block.map(|b| b.digest()) != Some(d.clone()) && !own_proposals.iter().any(|b| b.digest() == *d) {
                wit.resumed = true;
            }
        }
        // reaction to invalid non-proposal messages (C04 spot check inside proto)
        if let Some(m) = delivered {
            if !matches!(m, ConsensusMessage::Propose(_)) && !w.ref_valid_msg(m) {
                let reacted = !frames.is_empty() || !commits.is_empty() || post != pre || post_stored != pre_stored;
                if reacted {
                    find("C04", "reacted-to-invalid-message".into(), format!("n{} reacted to invalid {}", me, uni.describe(m)));
                }
            }
        }

        // ---- sync requests: the helper re-sends exactly the block stored under the requested digest ----
        if let Some(ConsensusMessage::SyncRequest(d, origin)) = delivered {
            let replies: Vec<&Block> = Vec::new();
            let _ = replies;
            let mut answered = false;
            for f in &frames {
                if let Ok(ConsensusMessage::Propose(b)) = bincode::deserialize::<ConsensusMessage>(&f.bytes) {
                    if b.author != my_name || Some(f.dst.port().wrapping_sub(CONSENSUS_PORT0) as usize) == w.index_of(origin) {
                        if b.digest() == *d {
                            answered = true;
                        } else if own_proposals.iter().all(|p| p.digest() != b.digest()) {
                            find("C07", "helper:wrong-block".into(), format!("n{} answered a sync request for {} with block {}", me, short(d), short(&b.digest())));
                        }
                    }
                }
            }
            if pre_stored.contains(d) && w.index_of(origin).is_some() && !answered {
                find("C07", "helper:no-reply".into(), format!("n{} holds block {} but did not answer a committee member's sync request for it", me, short(d)));
            }
        }

        // clean the reference aggregators like the code documents (rounds below the current one)
        let cur = post.round;
        self.hist.ref_votes.retain(|(r, _), _| *r >= cur);
        self.hist.ref_timeouts.retain(|r, _| *r >= cur);
        // prune history variables that can no longer matter (keeps the key small without losing
        // anything the monitors read): votes/timeouts/proposals are kept in full.

        self.snap = post;
        self.stored = post_stored;
        self.stored_map = post_stored_map;
        StepResult {
            key: self.key(),
            out: out.into_iter().collect(),
            findings,
            witness: wit,
        }
    }
}
