// Engine `enum`: exhaustive enumeration of small closed value spaces of pure functions.
// C17 (quorum arithmetic), C18 (signatures / key encodings), C20 (message identity), C09a (leader).
use crate::util::{hex, ncpu, par_map, Report, Tier};
use crate::world::{self, sig_bytes, sig_from_bytes, World};
use consensus::verif::{ConsensusMessage, LeaderElector, Round, Timeout, Vote};
use consensus::{Block, QC, TC};
use crypto::{Digest, Hash as _, PublicKey, SecretKey, Signature};
use serde_json::json;
use std::collections::{BTreeMap, BTreeSet, HashMap};
use std::net::SocketAddr;
use std::panic::{catch_unwind, AssertUnwindSafe};

fn addr() -> SocketAddr {
    "127.0.0.1:1".parse().unwrap()
}

// ------------------------------------------------------------------------------------------
// C17
// ------------------------------------------------------------------------------------------

fn c17_oracle(n: u64, qc: u64, qm: u64) -> Result<(), String> {
    let f = (n - 1) / 3;
    if qc != qm {
        return Err(format!("consensus q={} != mempool q={}", qc, qm));
    }
    let q = qc;
    if !(3 * q > 2 * n) {
        return Err(format!("q={} is not > 2n/3", q));
    }
    if !(q <= n - f) {
        return Err(format!("q={} > n-f={}", q, n - f));
    }
    if !(2 * q > n + f) {
        return Err(format!("two quorums overlap in 2q-n={} <= f={}", 2 * q as i128 - n as i128, f));
    }
    Ok(())
}

struct Shapes {
    ck: Vec<PublicKey>,
    cons: Vec<consensus::Committee>,
    memp: Vec<mempool::Committee>,
}

impl Shapes {
    // One reusable committee per member count 1..=3; stakes are overwritten in place (the
    // `authorities` map is a public field) so that each of the ~10^10 evaluations is a real call of
    // quorum_threshold() on a real Committee value without re-allocating it.
    fn new() -> Self {
        let ks: Vec<PublicKey> = world::keys(3).into_iter().map(|(k, _)| k).collect();
        let mut cons = Vec::new();
        let mut memp = Vec::new();
        for m in 1..=3 {
            cons.push(consensus::Committee::new(
                ks[..m].iter().map(|k| (*k, 1, addr())).collect(),
                1,
            ));
            memp.push(mempool::Committee::new(
                ks[..m].iter().map(|k| (*k, 1, addr(), addr())).collect(),
                1,
            ));
        }
        Self { ck: ks, cons, memp }
    }

    fn eval(&mut self, stakes: &[u32]) -> (u64, u64, bool) {
        let m = stakes.len();
        let ck = &self.ck;
        let c = &mut self.cons[m - 1];
        let p = &mut self.memp[m - 1];
        for (i, s) in stakes.iter().enumerate() {
            c.authorities.get_mut(&ck[i]).unwrap().stake = *s;
            p.authorities.get_mut(&ck[i]).unwrap().stake = *s;
        }
        let stake_ok = stakes
            .iter()
            .enumerate()
            .all(|(i, s)| c.stake(&ck[i]) == *s && p.stake(&ck[i]) == *s);
        (c.quorum_threshold() as u64, p.quorum_threshold() as u64, stake_ok)
    }
}

pub fn c17(tier: Tier) -> i32 {
    let mut rep = Report::new("C17", tier, "exploration");
    let max_n: u64 = (1u64 << 31) - 1;
    // (a) totals
    let ranges: Vec<(u64, u64)> = match tier {
        Tier::Thorough => {
            let chunks = 4096u64;
            let step = max_n / chunks + 1;
            (0..chunks)
                .map(|c| (1 + c * step, std::cmp::min(max_n, (c + 1) * step)))
                .filter(|(a, b)| a <= b)
                .collect()
        }
        Tier::Quick => {
            let mut v = vec![(1u64, 1u64 << 24)];
            for p in 25..=31u32 {
                let c = 1u64 << p;
                let lo = c - (1 << 15);
                let hi = std::cmp::min(max_n, c + (1 << 15));
                v.push((lo, hi));
            }
            v.push((max_n - (1 << 16), max_n));
            // split for parallelism
            let mut out = Vec::new();
            for (a, b) in v {
                let mut x = a;
                while x <= b {
                    let y = std::cmp::min(b, x + (1 << 16));
                    out.push((x, y));
                    x = y + 1;
                }
            }
            out
        }
    };
    let results = par_map(ranges.len(), ncpu(), |ri| {
        let (a, b) = ranges[ri];
        let mut sh = Shapes::new();
        let mut evals = 0u64;
        let mut bad: Vec<(Vec<u32>, String)> = Vec::new();
        let mut qs = BTreeSet::new();
        for n in a..=b {
            let n32 = n as u32;
            let shapes: [(usize, [u32; 3]); 4] = [
                (1, [n32, 0, 0]),
                (if n >= 2 { 2 } else { 0 }, [1, n32.wrapping_sub(1), 0]),
                (if n >= 2 { 2 } else { 0 }, [n32 - n32 / 2, n32 / 2, 0]),
                (if n >= 3 { 3 } else { 0 }, [n32.wrapping_sub(2), 1, 1]),
            ];
            let r = catch_unwind(AssertUnwindSafe(|| {
                let mut out = [(0u64, 0u64, true); 4];
                for (k, (len, st)) in shapes.iter().enumerate() {
                    if *len > 0 {
                        out[k] = sh.eval(&st[..*len]);
                    }
                }
                out
            }));
            match r {
                Ok(out) => {
                    for (k, (len, st)) in shapes.iter().enumerate() {
                        if *len == 0 {
                            continue;
                        }
                        evals += 1;
                        let (qc, qm, stake_ok) = out[k];
                        if !stake_ok && bad.len() < 4 {
                            bad.push((st[..*len].to_vec(), "stake() does not return the configured stake".into()));
                        }
                        if let Err(e) = c17_oracle(n, qc, qm) {
                            if bad.len() < 4 {
                                bad.push((st[..*len].to_vec(), e));
                            }
                        }
                        if n <= 64 && k == 0 {
                            qs.insert((n, qc));
                        }
                    }
                }
                Err(_) => {
                    evals += 1;
                    if bad.len() < 4 {
                        bad.push((vec![n32], "panic in quorum_threshold() or stake()".into()));
                    }
                }
            }
        }
        (evals, bad, qs, b - a + 1)
    });
    let mut evals = 0u64;
    let mut totals = 0u64;
    let mut small = BTreeSet::new();
    for (e, bad, qs, t) in results {
        evals += e;
        totals += t;
        small.extend(qs);
        for (stakes, why) in bad {
            rep.violation(
                format!("quorum:{}", why.split(' ').next().unwrap_or("")),
                format!("stakes {:?}: {}", stakes, why),
                json!({"engine":"enum","check":"c17","stakes":stakes,"why":why}),
            );
        }
    }
    // (b) all compositions of n <= 12 into <= 5 parts incl. zero parts + unknown key
    let ks: Vec<PublicKey> = world::keys(6).into_iter().map(|(k, _)| k).collect();
    let mut comps = 0u64;
    fn rec(parts: &mut Vec<u32>, left: u32, maxparts: usize, out: &mut Vec<Vec<u32>>) {
        if !parts.is_empty() {
            out.push(parts.clone());
        }
        if parts.len() == maxparts {
            return;
        }
        for s in 0..=left {
            parts.push(s);
            rec(parts, left - s, maxparts, out);
            parts.pop();
        }
    }
    let mut all = Vec::new();
    rec(&mut Vec::new(), 12, 5, &mut all);
    for stakes in &all {
        let n: u64 = stakes.iter().map(|s| *s as u64).sum();
        if n == 0 {
            continue;
        }
        comps += 1;
        let c = consensus::Committee::new(
            stakes.iter().enumerate().map(|(i, s)| (ks[i], *s, addr())).collect(),
            1,
        );
        let p = mempool::Committee::new(
            stakes.iter().enumerate().map(|(i, s)| (ks[i], *s, addr(), addr())).collect(),
            1,
        );
        let r = c17_oracle(n, c.quorum_threshold() as u64, p.quorum_threshold() as u64);
        if let Err(e) = r {
            rep.violation(
                format!("quorum:{}", e.split(' ').next().unwrap_or("")),
                format!("stakes {:?}: {}", stakes, e),
                json!({"engine":"enum","check":"c17","stakes":stakes,"why":e}),
            );
        }
        let unknown = ks[5];
        if c.stake(&unknown) != 0 || p.stake(&unknown) != 0 {
            rep.violation(
                "stake:unknown-nonzero".into(),
                format!("stakes {:?}: unknown authority has stake", stakes),
                json!({"engine":"enum","check":"c17","stakes":stakes}),
            );
        }
        for (i, s) in stakes.iter().enumerate() {
            if c.stake(&ks[i]) != *s || p.stake(&ks[i]) != *s {
                rep.violation(
                    "stake:wrong".into(),
                    format!("stakes {:?}: stake({}) wrong", stakes, i),
                    json!({"engine":"enum","check":"c17","stakes":stakes}),
                );
            }
        }
    }
    rep.set("evaluations", json!(evals + comps));
    rep.set("distinct_nontrivial", json!(totals + comps));
    rep.set("totals_enumerated", json!(totals));
    rep.set("compositions_enumerated", json!(comps));
    rep.set(
        "rule",
        json!("(a) every total stake n in the listed ranges, realised as real consensus+mempool Committee values of shapes {n},{1,n-1},{ceil,floor},{n-2,1,1}; distinct = distinct totals; (b) every composition of every n<=12 into <=5 parts including zero-stake members; oracle: qc==qm, 3q>2n, q<=n-f, 2q-n>f, stake(unknown)==0"),
    );
    rep.set("exhaustive", json!(tier == Tier::Thorough));
    rep.set(
        "ranges",
        json!(if tier == Tier::Thorough { "1..=2^31-1 (all)".to_string() } else { "1..=2^24, +-2^15 around each power of two 2^25..2^31, top 2^16".to_string() }),
    );
    for (n, q) in small.iter().take(10) {
        rep.sample(json!({"n": n, "q": q}));
    }
    rep.assume("total stake < 2^31 as the property states; larger totals overflow the u32 arithmetic and are out of scope");
    rep.finish()
}

// ------------------------------------------------------------------------------------------
// C18
// ------------------------------------------------------------------------------------------

fn digest_of(i: u8) -> Digest {
    let mut d = [0u8; 32];
    for (j, b) in d.iter_mut().enumerate() {
        *b = i.wrapping_mul(31).wrapping_add(j as u8 ^ 0x5a);
    }
    if i == 0 {
        d = [0u8; 32];
    }
    if i == 1 {
        d = [0xff; 32];
    }
    Digest(d)
}

fn verify_caught(sig: &Signature, d: &Digest, k: &PublicKey) -> Result<bool, ()> {
    catch_unwind(AssertUnwindSafe(|| sig.verify(d, k).is_ok())).map_err(|_| ())
}

fn batch_caught(d: &Digest, votes: &[(PublicKey, Signature)]) -> Result<bool, ()> {
    catch_unwind(AssertUnwindSafe(|| Signature::verify_batch(d, votes.iter()).is_ok())).map_err(|_| ())
}

pub fn c18(tier: Tier) -> i32 {
    let mut rep = Report::new("C18", tier, "exploration");
    let nkeys = tier.pick(4, 8);
    let ndig = tier.pick(2, 4);
    let ks = world::keys(nkeys);
    let mut evals = 0u64;
    let mut distinct = 0u64;
    macro_rules! viol {
        ($sig:expr, $what:expr, $r:expr) => {
            rep.violation($sig.to_string(), $what, $r)
        };
    }
    // single signatures
    for (ki, (pk, sk)) in ks.iter().enumerate() {
        for di in 0..ndig {
            let d = digest_of(di as u8);
            let sig = Signature::new(&d, sk);
            evals += 1;
            distinct += 1;
            match verify_caught(&sig, &d, pk) {
                Ok(true) => {}
                Ok(false) => viol!("sig:valid-rejected", format!("valid signature rejected key={} digest={}", ki, di), json!({"key":ki,"digest":di})),
                Err(_) => viol!("sig:panic", "verify panicked".to_string(), json!({"key":ki,"digest":di})),
            }
            if ki == 0 && di == 0 {
                rep.sample(json!({"case":"sign/verify","key":pk.encode_base64(),"digest":hex(&d.0),"sig":hex(&sig_bytes(&sig))}));
            }
            // every signature bit
            let sb = sig_bytes(&sig);
            for bit in 0..512 {
                let mut m = sb;
                m[bit / 8] ^= 1 << (bit % 8);
                let ms = sig_from_bytes(&m);
                evals += 1;
                distinct += 1;
                match verify_caught(&ms, &d, pk) {
                    Ok(false) => {}
                    Ok(true) => viol!("sig:bitflip-accepted", format!("signature with bit {} flipped accepted", bit), json!({"key":ki,"digest":di,"bit":bit})),
                    Err(_) => viol!("sig:panic", format!("verify panicked on signature bit {}", bit), json!({"key":ki,"digest":di,"bit":bit})),
                }
            }
            // every digest bit
            for bit in 0..256 {
                let mut m = d.clone();
                m.0[bit / 8] ^= 1 << (bit % 8);
                evals += 1;
                distinct += 1;
                match verify_caught(&sig, &m, pk) {
                    Ok(false) => {}
                    Ok(true) => viol!("sig:digestflip-accepted", format!("digest bit {} flipped accepted", bit), json!({"key":ki,"digest":di,"bit":bit})),
                    Err(_) => viol!("sig:panic", "verify panicked on digest flip".to_string(), json!({"key":ki,"bit":bit})),
                }
            }
            // every key bit (may be an invalid point: must be Err, not panic)
            for bit in 0..256 {
                let mut m = *pk;
                m.0[bit / 8] ^= 1 << (bit % 8);
                evals += 1;
                distinct += 1;
                match verify_caught(&sig, &d, &m) {
                    Ok(false) => {}
                    Ok(true) => viol!("sig:keyflip-accepted", format!("key bit {} flipped accepted", bit), json!({"key":ki,"digest":di,"bit":bit})),
                    Err(_) => viol!("sig:panic", "verify panicked on key flip".to_string(), json!({"key":ki,"bit":bit})),
                }
            }
            // wrong key of the set
            for (kj, (pk2, _)) in ks.iter().enumerate() {
                if kj != ki {
                    evals += 1;
                    if verify_caught(&sig, &d, pk2) != Ok(false) {
                        viol!("sig:wrongkey-accepted", format!("signature of key {} accepted under key {}", ki, kj), json!({"key":ki,"other":kj}));
                    }
                }
            }
        }
    }
    // batches
    let maxb = tier.pick(3usize, 4usize);
    let d = digest_of(2);
    let sigs: Vec<Signature> = ks.iter().map(|(_, sk)| Signature::new(&d, sk)).collect();
    for size in 0..=maxb {
        let base: Vec<(PublicKey, Signature)> = (0..size).map(|i| (ks[i].0, sigs[i].clone())).collect();
        evals += 1;
        distinct += 1;
        match batch_caught(&d, &base) {
            Ok(true) => {}
            Ok(false) => viol!("batch:valid-rejected", format!("all-valid batch of size {} rejected", size), json!({"size":size})),
            Err(_) => viol!("batch:panic", format!("verify_batch panicked on size {}", size), json!({"size":size})),
        }
        // wrong digest
        if size > 0 {
            evals += 1;
            if batch_caught(&digest_of(3), &base) != Ok(false) {
                viol!("batch:wrongdigest-accepted", format!("batch size {} accepted for another digest", size), json!({"size":size}));
            }
        }
        // each position x each signature bit / replaced by another member's signature
        for pos in 0..size {
            let sb = sig_bytes(&base[pos].1);
            for bit in 0..512 {
                let mut m = sb;
                m[bit / 8] ^= 1 << (bit % 8);
                let mut b = base.clone();
                b[pos].1 = sig_from_bytes(&m);
                evals += 1;
                distinct += 1;
                match batch_caught(&d, &b) {
                    Ok(false) => {}
                    Ok(true) => viol!("batch:bitflip-accepted", format!("batch size {} pos {} bit {} accepted", size, pos, bit), json!({"size":size,"pos":pos,"bit":bit})),
                    Err(_) => viol!("batch:panic", "verify_batch panicked".to_string(), json!({"size":size,"pos":pos,"bit":bit})),
                }
            }
            for other in 0..ks.len() {
                if other != pos {
                    let mut b = base.clone();
                    b[pos].1 = sigs[other].clone();
                    evals += 1;
                    distinct += 1;
                    if batch_caught(&d, &b) != Ok(false) {
                        viol!("batch:transplant-accepted", format!("batch size {} pos {} carrying signature of {} accepted", size, pos, other), json!({"size":size,"pos":pos,"other":other}));
                    }
                }
            }
        }
        // every subset of corrupted members: verdict == conjunction of individual verdicts
        for mask in 0u32..(1 << size) {
            let mut b = base.clone();
            for pos in 0..size {
                if mask & (1 << pos) != 0 {
                    let mut m = sig_bytes(&b[pos].1);
                    m[40] ^= 0x10;
                    b[pos].1 = sig_from_bytes(&m);
                }
            }
            let individual = b.iter().all(|(k, s)| verify_caught(s, &d, k) == Ok(true));
            evals += 1;
            distinct += 1;
            let got = batch_caught(&d, &b);
            if got != Ok(individual) {
                viol!("batch:not-conjunction", format!("batch size {} mask {:b}: batch={:?} individual={}", size, mask, got, individual), json!({"size":size,"mask":mask}));
            }
        }
    }
    // encoders
    for (ki, (pk, sk)) in ks.iter().enumerate() {
        evals += 2;
        distinct += 2;
        let e = pk.encode_base64();
        match catch_unwind(|| PublicKey::decode_base64(&e)) {
            Ok(Ok(k2)) if k2 == *pk => {}
            other => viol!("enc:pk-roundtrip", format!("public key {} does not round trip: {:?}", ki, other.map(|r| r.map(|k| k.encode_base64()))), json!({"key":e})),
        }
        let es = sk.encode_base64();
        match catch_unwind(|| SecretKey::decode_base64(&es).map(|s| s.encode_base64())) {
            Ok(Ok(s2)) if s2 == es => {}
            _ => viol!("enc:sk-roundtrip", format!("secret key {} does not round trip", ki), json!({"key":ki})),
        }
        // the decoded secret still signs identically
        let sk2 = world::clone_secret(sk);
        let d = digest_of(1);
        if sig_bytes(&Signature::new(&d, &sk2)) != sig_bytes(&Signature::new(&d, sk)) {
            viol!("enc:sk-roundtrip", format!("decoded secret key {} signs differently", ki), json!({"key":ki}));
        }
        // every single byte of the public key set to 0x00 / 0xff (arbitrary key *values* for the encoder)
        for pos in 0..32 {
            for val in [0x00u8, 0xff] {
                let mut m = *pk;
                m.0[pos] = val;
                evals += 1;
                distinct += 1;
                let ok = catch_unwind(|| PublicKey::decode_base64(&m.encode_base64()).ok() == Some(m)).unwrap_or(false);
                if !ok {
                    viol!("enc:pk-roundtrip", format!("public key value does not round trip (byte {} = {:#x})", pos, val), json!({"pos":pos,"val":val}));
                }
                // through serde_json and bincode
                let j = serde_json::to_string(&m).unwrap();
                let okj = catch_unwind(|| serde_json::from_str::<PublicKey>(&j).ok() == Some(m)).unwrap_or(false);
                let bb = bincode::serialize(&m).unwrap();
                let okb = catch_unwind(|| bincode::deserialize::<PublicKey>(&bb).ok() == Some(m)).unwrap_or(false);
                evals += 2;
                if !okj || !okb {
                    viol!("enc:pk-serde", format!("public key serde round trip failed json={} bincode={}", okj, okb), json!({"pos":pos,"val":val}));
                }
            }
        }
    }
    // JSON key and committee files through the real node/src/config.rs Export impls
    let dir = format!("/dev/shm/hsv-c18-{}", std::process::id());
    let _ = std::fs::create_dir_all(&dir);
    for (ki, (pk, sk)) in ks.iter().enumerate() {
        let path = format!("{}/key-{}.json", dir, ki);
        let _ = std::fs::remove_file(&path);
        let secret = crate::nodecfg::Secret {
            name: *pk,
            secret: world::clone_secret(sk),
        };
        use crate::nodecfg::Export as _;
        evals += 1;
        distinct += 1;
        let r = secret.write(&path).ok().and_then(|_| crate::nodecfg::Secret::read(&path).ok());
        match r {
            Some(s2) if s2.name == *pk && s2.secret.encode_base64() == sk.encode_base64() => {}
            _ => viol!("enc:keyfile", format!("key file round trip failed for key {}", ki), json!({"key":ki})),
        }
    }
    {
        use crate::nodecfg::Export as _;
        let w = World::new(&vec![1; nkeys]);
        let committee = crate::nodecfg::Committee {
            consensus: w.committee.clone(),
            mempool: w.mempool_committee(),
        };
        let path = format!("{}/committee.json", dir);
        let _ = std::fs::remove_file(&path);
        evals += 1;
        distinct += 1;
        let r = committee.write(&path).ok().and_then(|_| crate::nodecfg::Committee::read(&path).ok());
        let ok = match r {
            Some(c2) => {
                let a: BTreeSet<_> = c2.consensus.authorities.keys().cloned().collect();
                let b: BTreeSet<_> = w.committee.authorities.keys().cloned().collect();
                let m: BTreeSet<_> = c2.mempool.authorities.keys().cloned().collect();
                a == b && m == b && w.keys.iter().all(|(k, _)| c2.consensus.stake(k) == 1 && c2.mempool.stake(k) == 1)
            }
            None => false,
        };
        if !ok {
            viol!("enc:committeefile", "committee file round trip failed".to_string(), json!({}));
        }
    }
    // histories of exports to ONE path (a key or committee file regenerated in place): every sequence
    // of <= 3 documents out of {key file 0, key file 1, committee of 2, of 4, of 7 with large stakes};
    // after every write the file must read back as the document just written
    {
        use crate::nodecfg::Export as _;
        let mk_committee = |stakes: &[u32]| {
            let w = World::new(stakes);
            crate::nodecfg::Committee { consensus: w.committee.clone(), mempool: w.mempool_committee() }
        };
        #[derive(Clone, Copy, Debug)]
        enum Doc {
            Key(usize),
            Committee(usize),
        }
        let committees = [mk_committee(&[1, 1]), mk_committee(&[1, 1, 1, 1]), mk_committee(&[1_000_000; 7])];
        let docs = [Doc::Key(0), Doc::Key(1), Doc::Committee(0), Doc::Committee(1), Doc::Committee(2)];
        let mut hists: Vec<Vec<Doc>> = Vec::new();
        fn rec<T: Copy>(len: usize, a: &[T], cur: &mut Vec<T>, out: &mut Vec<Vec<T>>) {
            if !cur.is_empty() {
                out.push(cur.clone());
            }
            if cur.len() == len {
                return;
            }
            for e in a {
                cur.push(*e);
                rec(len, a, cur, out);
                cur.pop();
            }
        }
        rec(3, &docs, &mut Vec::new(), &mut hists);
        let mut file_hist = 0u64;
        for (hi, h) in hists.iter().enumerate() {
            let path = format!("{}/hist-{}.json", dir, hi);
            let _ = std::fs::remove_file(&path);
            file_hist += 1;
            for (step, d) in h.iter().enumerate() {
                evals += 1;
                let ok = match d {
                    Doc::Key(k) => {
                        let (pk, sk) = &ks[*k];
                        let secret = crate::nodecfg::Secret { name: *pk, secret: world::clone_secret(sk) };
                        match secret.write(&path).ok().and_then(|_| crate::nodecfg::Secret::read(&path).ok()) {
                            Some(s2) => s2.name == *pk && s2.secret.encode_base64() == sk.encode_base64(),
                            None => false,
                        }
                    }
                    Doc::Committee(c) => {
                        let want = serde_json::to_value(&committees[*c]).unwrap();
                        match committees[*c].write(&path).ok().and_then(|_| crate::nodecfg::Committee::read(&path).ok()) {
                            Some(c2) => serde_json::to_value(&c2).unwrap() == want,
                            None => false,
                        }
                    }
                };
                if !ok {
                    viol!("enc:file-history", format!("after exporting {:?} to one path in this order, the file does not read back as the last document written (step {})", h, step), json!({"history": format!("{:?}", h), "step": step}));
                    break;
                }
            }
            let _ = std::fs::remove_file(&path);
        }
        distinct += file_hist;
        rep.set("export_file_histories", json!(file_hist));
    }
    let _ = std::fs::remove_dir_all(&dir);

    rep.set("evaluations", json!(evals));
    rep.set("distinct_nontrivial", json!(distinct));
    rep.set("exhaustive", json!(true));
    rep.set("rule", json!(format!("{} seeded key pairs x {} digests: sign/verify; each of 512 signature bits, 256 digest bits, 256 key bits flipped; every other key; batches of size 0..={} (all valid; each position x each signature bit; each position x each other member's signature; every subset corrupted vs conjunction); base64/serde_json/bincode round trips incl. keys with each byte forced to 0x00/0xff; real Secret/Committee Export::write/read files, fresh and over every history of <= 3 earlier exports to the same path. distinct = distinct (key,digest,mutation) cases, all non-trivial", nkeys, ndig, maxb)));
    rep.assume("honestly generated keys and bit-flipped honest signatures only, as the property's quantifier states; crafted small-order points are outside it");
    rep.finish()
}

// ------------------------------------------------------------------------------------------
// C09 (a): leader function
// ------------------------------------------------------------------------------------------

fn permutations(items: &[usize]) -> Vec<Vec<usize>> {
    if items.len() <= 1 {
        return vec![items.to_vec()];
    }
    let mut out = Vec::new();
    for i in 0..items.len() {
        let mut rest = items.to_vec();
        let x = rest.remove(i);
        for mut p in permutations(&rest) {
            p.insert(0, x);
            out.push(p);
        }
    }
    out
}

pub fn c09_leader(rep: &mut Report, tier: Tier) {
    let all = world::keys(7);
    let maxn = tier.pick(5usize, 6usize);
    let mut evals = 0u64;
    let mut committees = 0u64;
    // every subset of the 7 keys of size 1..=maxn, every insertion order
    for mask in 1u32..(1 << 7) {
        let members: Vec<usize> = (0..7).filter(|i| mask & (1 << i) != 0).collect();
        let n = members.len();
        if n > maxn {
            continue;
        }
        let mut sorted: Vec<PublicKey> = members.iter().map(|i| all[*i].0).collect();
        sorted.sort();
        let mut rounds: Vec<Round> = (0..(3 * n as u64 + 1)).collect();
        rounds.extend_from_slice(&[(1u64 << 32) - 1, 1u64 << 32, (1u64 << 32) + 1, u64::MAX - 1, u64::MAX]);
        let mut reference: Option<Vec<PublicKey>> = None;
        for perm in permutations(&members) {
            committees += 1;
            let committee = consensus::Committee::new(
                perm.iter().map(|m| (all[*m].0, 1 + (*m as u32 % 3), addr())).collect(),
                1,
            );
            let le = LeaderElector::new(committee);
            let got: Vec<PublicKey> = rounds
                .iter()
                .map(|r| {
                    evals += 1;
                    le.get_leader(*r)
                })
                .collect();
            for (r, g) in rounds.iter().zip(got.iter()) {
                let want = sorted[(*r % n as u64) as usize];
                if *g != want {
                    rep.violation(
                        "leader:not-reference".into(),
                        format!("committee of {} members, round {}: leader differs from sorted round-robin", n, r),
                        json!({"engine":"enum","members":members,"order":perm,"round":r}),
                    );
                }
            }
            match &reference {
                None => reference = Some(got.clone()),
                Some(r0) => {
                    if *r0 != got {
                        rep.violation(
                            "leader:order-dependent".into(),
                            format!("committee of {} members: leader depends on insertion order", n),
                            json!({"engine":"enum","members":members,"order":perm}),
                        );
                    }
                }
            }
            // rotation: every window of n consecutive rounds is a permutation of the members
            for w in 0..(2 * n + 1) {
                let set: BTreeSet<PublicKey> = got[w..w + n].iter().cloned().collect();
                if set.len() != n {
                    rep.violation(
                        "leader:no-rotation".into(),
                        format!("committee of {} members: rounds {}..{} do not cover all members", n, w, w + n),
                        json!({"engine":"enum","members":members,"window":w}),
                    );
                }
            }
        }
    }
    rep.add("leader_evaluations", evals);
    rep.add("leader_committees_x_orders", committees);
    rep.sample(json!({"case":"leader","committee_sizes":format!("1..={}",maxn),"rounds":"0..3n, 2^32-1, 2^32, 2^32+1, u64::MAX-1, u64::MAX","orders":"all insertion orders"}));
}

// ------------------------------------------------------------------------------------------
// C20
// ------------------------------------------------------------------------------------------

fn dg(tag: u8) -> Digest {
    match tag {
        0 => Digest::default(),
        t => {
            let mut d = [t; 32];
            d[31] = t.wrapping_mul(3);
            Digest(d)
        }
    }
}

pub fn c20(tier: Tier) -> i32 {
    let mut rep = Report::new("C20", tier, "exploration");
    let w = World::new(&[1, 1, 1, 1]);
    let rounds: Vec<Round> = vec![0, 1, 2, 255, 256, 1 << 32, u64::MAX];
    let a = dg(1);
    let b = dg(2);
    // payloads include "adjacent boundary" cases: [a,b] vs [b,a], [a] with parent b vs [] with ... etc.
    let payloads: Vec<Vec<Digest>> = vec![vec![], vec![a.clone()], vec![b.clone()], vec![a.clone(), b.clone()], vec![b.clone(), a.clone()], vec![a.clone(), a.clone()]];
    let parents = vec![dg(0), a.clone(), b.clone()];
    let mut evals = 0u64;

    // blocks: digest -> identity
    let mut blocks: HashMap<Digest, (usize, Round, usize, usize)> = HashMap::new();
    let mut block_digests = BTreeSet::new();
    for au in 0..4 {
        for r in &rounds {
            for (pi, p) in payloads.iter().enumerate() {
                for (qi, par) in parents.iter().enumerate() {
                    let blk = Block {
                        qc: QC { hash: par.clone(), round: 0, votes: vec![] },
                        tc: None,
                        author: w.name(au),
                        round: *r,
                        payload: p.clone(),
                        signature: Signature::default(),
                    };
                    let d = blk.digest();
                    evals += 1;
                    let id = (au, *r, pi, qi);
                    if let Some(prev) = blocks.insert(d.clone(), id) {
                        if prev != id {
                            rep.violation(
                                "digest:block-collision".into(),
                                format!("blocks (author,round,payload,parent)={:?} and {:?} have the same digest", prev, id),
                                json!({"engine":"enum","a":format!("{:?}",prev),"b":format!("{:?}",id)}),
                            );
                        }
                    }
                    block_digests.insert(d);
                }
            }
        }
    }
    // Known structural ambiguity of concatenating variable-length payload and parent without
    // separators: payload [x] + parent y  vs  payload [] ... cannot collide here since parent is
    // always exactly one digest at the end; payload [a] parent b vs payload [a,b] parent ? differ in
    // length. Covered by the universe above (payloads [a] / [a,b], parents a / b).
    let hashes = vec![dg(0), a.clone(), b.clone(), dg(3)];
    let mut vote_digests: HashMap<Digest, (usize, Round)> = HashMap::new();
    for (hi, h) in hashes.iter().enumerate() {
        for r in &rounds {
            let v = Vote { hash: h.clone(), round: *r, author: w.name(0), signature: Signature::default() };
            let q = QC { hash: h.clone(), round: *r, votes: vec![] };
            evals += 2;
            if v.digest() != q.digest() {
                rep.violation(
                    "digest:vote-qc-mismatch".into(),
                    format!("vote and QC for the same (block,round) have different digests (round {})", r),
                    json!({"engine":"enum","round":r}),
                );
            }
            if let Some(prev) = vote_digests.insert(v.digest(), (hi, *r)) {
                if prev != (hi, *r) {
                    rep.violation(
                        "digest:vote-collision".into(),
                        format!("votes for (hash,round) {:?} and {:?} have the same digest", prev, (hi, *r)),
                        json!({"engine":"enum"}),
                    );
                }
            }
        }
    }
    let mut to_digests: HashMap<Digest, (Round, Round)> = HashMap::new();
    for r in &rounds {
        for hq in &rounds {
            let t = Timeout {
                high_qc: QC { hash: a.clone(), round: *hq, votes: vec![] },
                round: *r,
                author: w.name(1),
                signature: Signature::default(),
            };
            evals += 1;
            if let Some(prev) = to_digests.insert(t.digest(), (*r, *hq)) {
                if prev != (*r, *hq) {
                    rep.violation(
                        "digest:timeout-collision".into(),
                        format!("timeouts (round,hqc) {:?} and {:?} have the same digest", prev, (*r, *hq)),
                        json!({"engine":"enum"}),
                    );
                }
            }
        }
    }
    // domain separation between the three kinds
    let vd: BTreeSet<Digest> = vote_digests.keys().cloned().collect();
    let td: BTreeSet<Digest> = to_digests.keys().cloned().collect();
    for (x, y, name) in [(&block_digests, &vd, "block/vote"), (&block_digests, &td, "block/timeout"), (&vd, &td, "vote/timeout")] {
        evals += (x.len() * y.len()) as u64;
        if x.intersection(y).next().is_some() {
            rep.violation(
                format!("digest:kind-overlap:{}", name),
                format!("a {} digest pair coincides: a signature could be moved between kinds", name),
                json!({"engine":"enum","kinds":name}),
            );
        }
    }
    rep.sample(json!({"case":"identity","blocks":blocks.len(),"votes":vote_digests.len(),"timeouts":to_digests.len()}));

    // round trips: signed messages with real certificates
    let mut msgs: Vec<ConsensusMessage> = Vec::new();
    let b1 = w.block(1, 1, QC::genesis(), None, vec![]);
    let qc1 = w.qc(&b1, &[0, 1, 2]);
    let b2 = w.block(2, 2, qc1.clone(), None, vec![a.clone(), b.clone()]);
    let tc2 = w.tc(2, &[(0, 1), (1, 0), (3, 1)]);
    let b3 = w.block(3, 3, qc1.clone(), Some(tc2.clone()), vec![b.clone()]);
    let bmax = w.block(3, u64::MAX, w.qc_for(a.clone(), u64::MAX - 1, &[0, 1, 2, 3]), None, vec![]);
    for blk in [&b1, &b2, &b3, &bmax] {
        msgs.push(ConsensusMessage::Propose(blk.clone()));
        for v in 0..4 {
            msgs.push(ConsensusMessage::Vote(w.vote(v, blk)));
        }
    }
    for r in [1u64, 2, 1 << 32] {
        for au in 0..4 {
            msgs.push(ConsensusMessage::Timeout(w.timeout(au, r, qc1.clone())));
            msgs.push(ConsensusMessage::Timeout(w.timeout(au, r, QC::genesis())));
        }
        msgs.push(ConsensusMessage::TC(w.tc(r, &[(0, 1), (2, 0), (3, 1)])));
    }
    msgs.push(ConsensusMessage::SyncRequest(a.clone(), w.name(2)));
    let extra = crate::proto::interned_messages_for_c20(tier);
    let n_extra = extra.len();
    msgs.extend(extra);
    let mut rt = 0u64;
    for m in &msgs {
        rt += 1;
        let bytes = bincode::serialize(m).unwrap();
        let back: Result<ConsensusMessage, _> = bincode::deserialize(&bytes);
        let ok = match (&m, &back) {
            (ConsensusMessage::Propose(x), Ok(ConsensusMessage::Propose(y))) => {
                x.digest() == y.digest() && x.verify(&w.committee).is_ok() == y.verify(&w.committee).is_ok() && (y.verify(&w.committee).is_ok() || !w.ref_valid_block(x))
            }
            (ConsensusMessage::Vote(x), Ok(ConsensusMessage::Vote(y))) => x.digest() == y.digest() && y.verify(&w.committee).is_ok() && x.author == y.author,
            (ConsensusMessage::Timeout(x), Ok(ConsensusMessage::Timeout(y))) => x.digest() == y.digest() && y.verify(&w.committee).is_ok() && x.author == y.author,
            (ConsensusMessage::TC(x), Ok(ConsensusMessage::TC(y))) => x.round == y.round && y.verify(&w.committee).is_ok() && x.high_qc_rounds() == y.high_qc_rounds(),
            (ConsensusMessage::SyncRequest(d1, k1), Ok(ConsensusMessage::SyncRequest(d2, k2))) => d1 == d2 && k1 == k2,
            _ => false,
        };
        let re = back.as_ref().ok().map(|b| bincode::serialize(b).unwrap());
        if !ok || re.as_deref() != Some(&bytes[..]) {
            rep.violation(
                "roundtrip:wire".into(),
                format!("message does not survive the wire round trip: {:?}", m),
                json!({"engine":"enum","bytes":hex(&bytes)}),
            );
        }
        // store path: the block alone as Core::store_block writes it and Helper reads it back
        if let ConsensusMessage::Propose(x) = m {
            rt += 1;
            let stored = bincode::serialize(x).unwrap();
            let y: Result<Block, _> = bincode::deserialize(&stored);
            let ok = match &y {
                Ok(y) => y.digest() == x.digest() && y.verify(&w.committee).is_ok() == x.verify(&w.committee).is_ok() && bincode::serialize(y).unwrap() == stored,
                Err(_) => false,
            };
            if !ok {
                rep.violation(
                    "roundtrip:store".into(),
                    format!("block does not survive the store round trip: {:?}", x),
                    json!({"engine":"enum","bytes":hex(&stored)}),
                );
            }
        }
    }
    // the real store + real Helper path
    let helper_checked = crate::driver::c20_store_helper_roundtrip(&w, &[b1.clone(), b2.clone(), b3.clone(), bmax.clone()], &mut rep);
    rt += helper_checked;
    // through the real Core's own store path: a real node processes the blocks (Core::store_block),
    // then serves them through its real Helper on request
    {
        use crate::proto::node::LiveNode;
        use crate::proto::universe::{Ev, Universe};
        use std::sync::Arc;
        let wa = Arc::new(World::new(&[1, 1, 1, 1]));
        let uni = Universe::new(wa.clone(), true);
        let t = 0usize;
        let (mut ln, _) = LiveNode::boot(&wa, &uni, t);
        let others = [1usize, 2, 3];
        let c1 = wa.block(1, 1, QC::genesis(), None, vec![]);
        let c2 = wa.block(2, 2, wa.qc(&c1, &others), None, vec![]);
        let c3 = wa.block(3, 3, wa.qc(&c2, &others), None, vec![]);
        let c5 = wa.block(1, 5, wa.qc(&c3, &others), Some(wa.tc(4, &[(1, 3), (2, 3), (3, 3)])), vec![]);
        for b in [&c1, &c2, &c3, &c5] {
            let id = uni.intern(ConsensusMessage::Propose((*b).clone()));
            let _ = ln.apply(&uni, Ev::Deliver(id));
        }
        for b in [&c1, &c2, &c3, &c5] {
            rt += 1;
            let id = uni.intern(ConsensusMessage::SyncRequest(b.digest(), wa.name(2)));
            let res = ln.apply(&uni, Ev::Deliver(id));
            let mut ok = false;
            for (m, dst) in &res.out {
                if *dst == 2 {
                    if let ConsensusMessage::Propose(y) = &uni.msg(*m).msg {
                        if y.digest() == b.digest() {
                            ok = y.verify(&wa.committee).is_ok() && wa.ref_valid_block(y);
                            if !ok {
                                rep.violation(
                                    "roundtrip:core-store".into(),
                                    format!("block of round {} processed and stored by a real node no longer verifies when served back by its helper ({:?})", b.round, y.verify(&wa.committee).err().map(|e| e.to_string())),
                                    json!({"engine":"enum","check":"c20-core-store","round":b.round}),
                                );
                                ok = true;
                            }
                        }
                    }
                }
            }
            if !ok {
                rep.violation(
                    "roundtrip:core-store-missing".into(),
                    format!("block of round {} processed by a real node was not served back with the same digest on request", b.round),
                    json!({"engine":"enum","check":"c20-core-store","round":b.round}),
                );
            }
        }
    }
    evals += rt;
    rep.sample(json!({"case":"roundtrip","messages":msgs.len(),"from_proto_run":n_extra,"through_real_store_and_helper":helper_checked}));
    rep.set("evaluations", json!(evals));
    rep.set("distinct_nontrivial", json!(blocks.len() + vote_digests.len() + to_digests.len() + msgs.len()));
    rep.set("exhaustive", json!(true));
    rep.set("rule", json!("universe: 4 authors x 7 rounds {0,1,2,255,256,2^32,u64::MAX} x 6 payloads over two digests (incl. order swap, repetition) x 3 parents for blocks; 4 hashes x 7 rounds for votes/QCs; 7x7 (round,hqc round) for timeouts; all pairs compared through a digest->identity map; pairwise disjointness of the three digest kinds; wire (bincode ConsensusMessage) and store (bincode Block, real Store + real Helper) round trips of signed messages incl. every message interned by a proto run; distinct = distinct message identities"));
    rep.assume("collision resistance of SHA-512 outside the enumerated universe is assumed, not checked");
    rep.finish()
}
