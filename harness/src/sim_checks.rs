// C06 / C07 / C13: whole real systems in virtual time over enumerated fault grids.
use crate::sim::{decode_consensus, FrameInfo, Kind, Sim, Verdict};
use crate::util::{ncpu, par_map, Report, Tier};
use consensus::verif::ConsensusMessage;
use crypto::{Digest, Hash as _};
use ed25519_dalek::{Digest as _, Sha512};
use mempool::verif::MempoolMessage;
use serde_json::{json, Value};
use std::collections::{BTreeMap, BTreeSet, HashMap, HashSet};
use std::convert::TryInto;

const DELTA_T: u64 = 1_000; // round timeout (virtual ms)
const DELTA: u64 = 10; // link delay after stabilisation
const G: u64 = 20; // largest step while nothing is in flight

fn sha(bytes: &[u8]) -> Digest {
    Digest(Sha512::digest(bytes).as_slice()[..32].try_into().unwrap())
}

// ---------------------------------------------------------------------------------------------
// C06
// ---------------------------------------------------------------------------------------------

#[derive(Clone, Debug, PartialEq)]
enum CrashAt {
    Boot,
    /// after emitting its k-th own proposal, which reaches: 0 = nobody, 1 = exactly one live peer
    /// (the lowest), 2 = everybody
    AfterProposal(u32, u8),
}

#[derive(Clone, Debug, PartialEq)]
enum Pre {
    None,
    Isolate(usize),
    Split,
    HoldLinks(Vec<(usize, usize)>),
}

#[derive(Clone, Debug)]
struct Sc06 {
    n: usize,
    crashes: Vec<(usize, CrashAt)>,
    pre: Pre,
    window: u64,
}

fn held(pre: &Pre, n: usize, a: usize, b: usize) -> bool {
    match pre {
        Pre::None => false,
        Pre::Isolate(x) => (a == *x) != (b == *x),
        Pre::Split => (a < n / 2) != (b < n / 2),
        Pre::HoldLinks(ls) => ls.iter().any(|(x, y)| (*x == a && *y == b) || (*x == b && *y == a)),
    }
}

fn run_c06(sc: &Sc06) -> (Vec<(String, String)>, Value) {
    let n = sc.n;
    let mut sim = Sim::new(&vec![1; n], false, DELTA_T, 10_000, DELTA, None);
    let mut bad: Vec<(String, String)> = Vec::new();
    let crash_set: BTreeSet<usize> = sc.crashes.iter().map(|c| c.0).collect();
    for (c, at) in &sc.crashes {
        if *at == CrashAt::Boot {
            sim.crash(*c);
        }
    }
    let t_stab = sc.window;
    let horizon = t_stab + 3 * DELTA_T + 2 * (3 * n as u64 * DELTA_T);
    let mut proposals_seen: HashMap<usize, HashSet<Digest>> = HashMap::new();
    let mut to_crash: Vec<usize> = Vec::new();
    let lowest_live: usize = (0..n).find(|i| !crash_set.contains(i)).unwrap();
    let mut marks: Vec<(u64, Vec<u64>)> = Vec::new(); // (time, committed round per node)
    let mut next_mark = t_stab + 3 * DELTA_T;
    while sim.now < horizon {
        let crashes = sc.crashes.clone();
        let pre = sc.pre.clone();
        let names: Vec<_> = (0..n).map(|i| sim.w.name(i)).collect();
        let mut policy = |f: &FrameInfo| -> Verdict {
            let mut delay = DELTA;
            if f.now < t_stab && held(&pre, n, f.src, f.dst) {
                delay = t_stab - f.now + DELTA; // delayed, not lost
            }
            if f.kind == Kind::Consensus {
                if let Some(ConsensusMessage::Propose(b)) = decode_consensus(f.bytes) {
                    if b.author == names[f.src] {
                        for (c, at) in &crashes {
                            if let CrashAt::AfterProposal(k, reach) = at {
                                if *c == f.src {
                                    let set = proposals_seen.entry(*c).or_default();
                                    set.insert(b.digest());
                                    if set.len() as u32 == *k {
                                        if !to_crash.contains(c) {
                                            to_crash.push(*c);
                                        }
                                        let deliver = match reach {
                                            0 => false,
                                            1 => f.dst == (if lowest_live == *c { lowest_live + 1 } else { lowest_live }),
                                            _ => true,
                                        };
                                        if !deliver {
                                            return Verdict::Drop;
                                        }
                                    } else if set.len() as u32 > *k {
                                        return Verdict::Drop;
                                    }
                                }
                            }
                        }
                    }
                }
            }
            Verdict::Deliver(delay)
        };
        let mut step = G;
        if let Some(d) = sim.next_due() {
            step = step.min(d.saturating_sub(sim.now).max(1));
        }
        sim.tick(step, &mut policy);
        for c in to_crash.drain(..) {
            sim.crash(c);
        }
        if sim.now >= next_mark {
            marks.push((sim.now, (0..n).map(|i| sim.committed_round(i)).collect()));
            next_mark += 3 * n as u64 * DELTA_T;
        }
    }
    // oracle
    let live: Vec<usize> = (0..n).filter(|i| !sim.crashed.contains(i)).collect();
    for w in marks.windows(2) {
        for &i in &live {
            if w[1].1[i] <= w[0].1[i] {
                bad.push(("no-progress".into(), format!("node n{}'s committed round stayed at {} between {} ms and {} ms (stabilised at {} ms, timeout {} ms, {} nodes, crashed {:?})", i, w[0].1[i], w[0].0, w[1].0, t_stab, DELTA_T, n, sim.crashed)));
                break;
            }
        }
    }
    if marks.len() < 3 {
        bad.push(("horizon".into(), "internal: fewer than two observation windows".into()));
    }
    for &i in &live {
        if let Some(e) = sim.check_chain(i) {
            bad.push(("chain".into(), e));
        }
    }
    if let Some(e) = sim.check_agreement() {
        bad.push(("agreement".into(), e));
    }
    for (i, p) in &sim.panics {
        bad.push(("panic".into(), format!("node n{} panicked: {}", i, p)));
    }
    let info = json!({"final_committed_rounds": (0..n).map(|i| sim.committed_round(i)).collect::<Vec<_>>(), "frames": sim.frames_seen});
    (bad, info)
}

pub fn c06(tier: Tier) -> i32 {
    let mut rep = Report::new("C06", tier, "fault_enumeration");
    let mut grid: Vec<Sc06> = Vec::new();
    let sizes: Vec<usize> = tier.pick(vec![4, 7], vec![4, 5, 6, 7]);
    for &n in &sizes {
        let f = (n - 1) / 3;
        // crash sets of size <= f
        let mut sets: Vec<Vec<usize>> = vec![vec![]];
        for a in 0..n {
            sets.push(vec![a]);
            if f >= 2 {
                for b in (a + 1)..n {
                    sets.push(vec![a, b]);
                }
            }
        }
        if tier == Tier::Quick && n == 7 {
            sets = vec![vec![], vec![1], vec![1, 2], vec![2, 5], vec![0, 6]];
        }
        let windows = [DELTA_T * 3 / 2, DELTA_T * 7 / 2, DELTA_T * 73 / 10];
        for set in &sets {
            // crash instants
            let mut instants: Vec<Vec<(usize, CrashAt)>> = vec![set.iter().map(|c| (*c, CrashAt::Boot)).collect()];
            if !set.is_empty() {
                let ks: Vec<u32> = tier.pick(vec![1, 2], vec![1, 2, 3]);
                for k in ks {
                    for reach in 0..3u8 {
                        instants.push(set.iter().map(|c| (*c, CrashAt::AfterProposal(k, reach))).collect());
                    }
                }
            }
            for crashes in instants {
                let mut pres: Vec<(Pre, u64)> = vec![(Pre::None, 0)];
                let live: Vec<usize> = (0..n).filter(|i| !set.contains(i)).collect();
                let pre_list: Vec<Pre> = match tier {
                    Tier::Quick => vec![Pre::Isolate(live[0]), Pre::Split, Pre::HoldLinks(vec![(live[0], live[1])])],
                    Tier::Thorough => {
                        let mut v: Vec<Pre> = live.iter().map(|l| Pre::Isolate(*l)).collect();
                        v.push(Pre::Split);
                        v.push(Pre::HoldLinks(vec![(live[0], live[1])]));
                        v.push(Pre::HoldLinks(vec![(live[0], live[1]), (live[1], live[2])]));
                        v
                    }
                };
                for p in pre_list {
                    for w in windows.iter().take(tier.pick(2, 3)) {
                        pres.push((p.clone(), *w));
                    }
                }
                if tier == Tier::Quick && n == 7 {
                    pres.truncate(3);
                }
                for (pre, window) in pres {
                    grid.push(Sc06 { n, crashes: crashes.clone(), pre, window });
                }
            }
        }
    }
    let results = par_map(grid.len(), ncpu(), |i| run_c06(&grid[i]));
    let mut outcomes: BTreeSet<String> = BTreeSet::new();
    let mut best: BTreeMap<String, (usize, String)> = BTreeMap::new();
    for (i, (bad, info)) in results.iter().enumerate() {
        outcomes.insert(info["final_committed_rounds"].to_string());
        for (sig, what) in bad {
            best.entry(sig.clone()).or_insert((i, what.clone()));
        }
    }
    for (sig, (i, what)) in &best {
        rep.violation(format!("liveness:{}", sig), format!("[scenario {:?}] {}", grid[*i], what), json!({"engine":"sim","check":"c06","scenario":format!("{:?}", grid[*i]),"params":sc06_json(&grid[*i])}));
    }
    println!("  sim/liveness: scenarios={} distinct outcomes={}", grid.len(), outcomes.len());
    rep.set("evaluations", json!(grid.len()));
    rep.set("distinct_nontrivial", json!(outcomes.len()));
    rep.set("exhaustive", json!(true));
    rep.set("rule", json!(format!("grid: committee sizes {:?} x every crash set of size <= f x crash instant (at boot; after the node's k-th own proposal reaching nobody / one peer / everybody) x pre-stabilisation pattern (none; one live node isolated; live nodes split in two halves; 1-2 links held) x window (1.5, 3.5, 7.3 timeouts); held frames are released at stabilisation (delayed, not lost); afterwards every frame takes {} ms, round timeout {} ms. One deterministic execution per grid point on real consensus nodes. Oracle: from stabilisation + 3 timeouts on, every live node's highest committed round strictly grows in each of two consecutive windows of 3*n timeouts; delivered sequences are parent chains and prefixes of one another; no panic. distinct_nontrivial = distinct vectors of final committed rounds.", sizes, DELTA, DELTA_T)));
    rep.sample(json!({"scenario": format!("{:?}", grid[grid.len() / 2]), "outcome": results[grid.len() / 2].1}));
    rep.sample(json!({"scenario": format!("{:?}", grid[grid.len() - 1]), "outcome": results[grid.len() - 1].1}));
    rep.assume("bounded liveness over an enumerated fault grid with one canonical fair schedule after stabilisation; not a proof over all schedules");
    rep.finish()
}

pub fn debug_c06() {
    for reach in 0..3u8 {
        for k in 1..3u32 {
            for c in 0..4usize {
                let sc = Sc06 { n: 4, crashes: vec![(c, CrashAt::AfterProposal(k, reach))], pre: Pre::None, window: 0 };
                let (bad, info) = run_c06(&sc);
                println!("c={} k={} reach={} -> {} bad={:?}", c, k, reach, info, bad.iter().map(|b| &b.0).collect::<Vec<_>>());
            }
        }
    }
}

// ---------------------------------------------------------------------------------------------
// C07
// ---------------------------------------------------------------------------------------------

#[derive(Clone, Debug)]
struct Sc07 {
    j: usize,
    start_round: u64,
    len: u64,
    cut: bool,
    mute_first_target: bool,
}

fn run_c07(sc: &Sc07) -> (Vec<(String, String)>, Value) {
    let n = 4;
    let mut sim = Sim::new(&[1, 1, 1, 1], false, DELTA_T, 2_000, DELTA, None);
    sim.keep_trace = true;
    let mut bad: Vec<(String, String)> = Vec::new();
    let j = sc.j;
    let mut max_round_seen = 0u64;
    let mut isolated = false;
    let mut released_at: Option<u64> = None;
    let mut first_requests: HashSet<Digest> = HashSet::new();
    let mut muted = 0u64;
    let hard_stop = 120_000u64;
    loop {
        let iso = isolated && released_at.is_none();
        let cut = sc.cut;
        let mute = sc.mute_first_target;
        let mut policy = |f: &FrameInfo| -> Verdict {
            if f.kind == Kind::Consensus {
                match decode_consensus(f.bytes) {
                    Some(ConsensusMessage::Propose(b)) => {
                        if f.src != j {
                            max_round_seen = max_round_seen.max(b.round);
                        }
                    }
                    Some(ConsensusMessage::SyncRequest(d, _)) => {
                        // one peer never answers the recovering node's sync requests
                        if mute && f.src == j && f.dst == (j + 1) % 4 {
                            first_requests.insert(d);
                            muted += 1;
                            return Verdict::Drop;
                        }
                    }
                    _ => {}
                }
            }
            if iso && (f.src == j || f.dst == j) && !cut {
                return Verdict::Deliver(1_000_000_000); // held; re-scheduled on release below
            }
            Verdict::Deliver(DELTA)
        };
        let mut step = G;
        if let Some(d) = sim.next_due() {
            step = step.min(d.saturating_sub(sim.now).max(1));
        }
        sim.tick(step, &mut policy);
        if !isolated && max_round_seen >= sc.start_round {
            isolated = true;
            if sc.cut {
                for o in 0..n {
                    if o != j {
                        sim.set_cut(j, o, true);
                    }
                }
            }
        }
        if isolated && released_at.is_none() && max_round_seen >= sc.start_round + sc.len {
            released_at = Some(sim.now);
            if sc.cut {
                for o in 0..n {
                    if o != j {
                        sim.set_cut(j, o, false);
                    }
                }
            } else {
                sim.release_held(DELTA);
            }
        }
        if let Some(r) = released_at {
            if sim.now >= r + 40_000 {
                break;
            }
        }
        if sim.now > hard_stop {
            bad.push(("others-stalled".into(), format!("the three connected nodes did not reach round {} within {} virtual ms", sc.start_round + sc.len, hard_stop)));
            break;
        }
    }
    // oracle
    let others: Vec<usize> = (0..n).filter(|i| *i != j).collect();
    let min_others = others.iter().map(|o| sim.committed_round(*o)).min().unwrap_or(0);
    let rj = sim.committed_round(j);
    if rj + 4 < min_others {
        bad.push(("not-converged".into(), format!("the recovering node n{} committed up to round {} while the others are at round {} (40 s after reconnection)", j, rj, min_others)));
    }
    for i in 0..n {
        if let Some(e) = sim.check_chain(i) {
            bad.push(("chain".into(), e));
        }
    }
    if let Some(e) = sim.check_agreement() {
        bad.push(("agreement".into(), e));
    }
    for (i, p) in &sim.panics {
        bad.push(("panic".into(), format!("node n{} panicked: {}", i, p)));
    }
    // helper replies: a block re-sent by a node that did not author it must be one that the
    // destination asked that node for, and carry exactly the requested digest
    let mut asked: HashSet<(usize, usize, Digest)> = HashSet::new(); // (requester, helper, digest)
    let mut sync_dsts: HashMap<Digest, HashSet<usize>> = HashMap::new();
    let mut replies = 0u64;
    for (_, src, dst, kind, bytes) in &sim.trace {
        if *kind != Kind::Consensus {
            continue;
        }
        match decode_consensus(bytes) {
            Some(ConsensusMessage::SyncRequest(d, origin)) => {
                if let Some(o) = sim.w.index_of(&origin) {
                    asked.insert((o, *dst, d.clone()));
                    if o == j {
                        sync_dsts.entry(d).or_default().insert(*dst);
                    }
                }
            }
            Some(ConsensusMessage::Propose(b)) => {
                if b.author != sim.w.name(*src) {
                    replies += 1;
                    if !asked.contains(&(*dst, *src, b.digest())) {
                        bad.push(("helper-wrong-block".into(), format!("n{} sent n{} the block {:?} (round {}) which n{} never asked it for", src, dst, b.digest(), b.round, dst)));
                    }
                    if !sim.w.ref_valid_block(&b) {
                        bad.push(("helper-corrupt-block".into(), format!("n{} answered a sync request with a block that does not verify", src)));
                    }
                }
            }
            _ => {}
        }
    }
    if sc.mute_first_target && muted > 0 {
        let retried = sync_dsts.values().any(|s| s.len() >= 2);
        if !retried && rj + 4 < min_others {
            bad.push(("no-retry".into(), "an unanswered sync request was never retried with other peers".into()));
        }
    }
    let info = json!({"committed_rounds": (0..n).map(|i| sim.committed_round(i)).collect::<Vec<_>>(), "sync_requests_by_recovering_node": sync_dsts.len(), "helper_replies": replies, "muted_requests": muted});
    (bad, info)
}

pub fn c07(tier: Tier) -> i32 {
    let mut rep = Report::new("C07", tier, "fault_enumeration");
    let mut grid: Vec<Sc07> = Vec::new();
    let js: Vec<usize> = tier.pick(vec![0, 2], vec![0, 1, 2, 3]);
    let starts: Vec<u64> = tier.pick(vec![1, 2, 5], vec![1, 2, 3, 4, 5, 6, 7, 8]);
    let lens: Vec<u64> = tier.pick(vec![1, 2, 3, 5, 9], vec![1, 2, 3, 4, 5, 6, 7, 8, 9, 10]);
    for &j in &js {
        for &s in &starts {
            for &l in &lens {
                for cut in [false, true] {
                    for mute in [false, true] {
                        if !cut && mute {
                            continue; // held frames all arrive: nothing needs fetching
                        }
                        grid.push(Sc07 { j, start_round: s, len: l, cut, mute_first_target: mute });
                    }
                }
            }
        }
    }
    let results = par_map(grid.len(), ncpu(), |i| run_c07(&grid[i]));
    let mut outcomes: BTreeSet<String> = BTreeSet::new();
    let mut best: BTreeMap<String, (usize, String)> = BTreeMap::new();
    let mut with_sync = 0u64;
    let mut with_replies = 0u64;
    for (i, (bad, info)) in results.iter().enumerate() {
        outcomes.insert(format!("{}|{}|{}", info["committed_rounds"], info["sync_requests_by_recovering_node"], info["helper_replies"]));
        if info["sync_requests_by_recovering_node"].as_u64().unwrap_or(0) > 0 {
            with_sync += 1;
        }
        if info["helper_replies"].as_u64().unwrap_or(0) > 0 {
            with_replies += 1;
        }
        for (sig, what) in bad {
            best.entry(sig.clone()).or_insert((i, what.clone()));
        }
    }
    for (sig, (i, what)) in &best {
        rep.violation(format!("catchup:{}", sig), format!("[scenario {:?}] {}", grid[*i], what), json!({"engine":"sim","check":"c07","scenario":format!("{:?}", grid[*i]),"params":json!({"j":grid[*i].j,"start_round":grid[*i].start_round,"len":grid[*i].len,"cut":grid[*i].cut,"mute":grid[*i].mute_first_target})}));
    }
    // the sync path on one node, exhaustively: every chain shape x learning order (parking,
    // resumption, no panic), and sync requests for every block in every explored state (the helper
    // re-sends exactly the requested block)
    crate::proto::chain::run(&mut rep, "C07", tier);
    // the block synchronizer alone: every bounded sequence of park / store / wait operations
    crate::seq_sync::run(&mut rep, tier);
    for n in tier.pick(vec![0usize], vec![0usize, 2]) {
        let mut sc = crate::proto::solo::default_cfg(n, 3, tier);
        sc.with_votes = false;
        sc.with_timeouts = false;
        sc.stale_variants = false;
        sc.with_invalid = false;
        sc.with_sync_requests = true;
        sc.max_depth = tier.pick(3, 4);
        crate::proto::solo::run(&mut rep, "C07", "blocks+sync-requests", sc);
    }
    println!("  sim/catch-up: scenarios={} distinct outcomes={} scenarios with sync requests={} with helper replies={}", grid.len(), outcomes.len(), with_sync, with_replies);
    rep.set("evaluations", json!(grid.len()));
    rep.set("distinct_nontrivial", json!(outcomes.len()));
    rep.set("scenarios_in_which_the_node_had_to_fetch_blocks", json!(with_sync));
    rep.set("scenarios_with_helper_replies", json!(with_replies));
    rep.set("exhaustive", json!(true));
    rep.set("rule", json!("grid: recovering node x isolation start (first proposal of round s seen) x gap length in rounds of the others' progress (gaps with and without view changes) x isolation kind (frames held and released; links cut with connects refused, frames lost) x one peer mute towards the recovering node's sync requests (so for blocks it authored only the retry broadcast can succeed). 4 real consensus nodes, one deterministic execution per grid point, 40 virtual seconds after reconnection. Oracle: the recovering node's committed round is within 4 of the others', all delivered sequences are parent chains and prefixes of one another, every block re-sent by a non-author was requested from that node by that destination with exactly that digest and verifies, no panic. distinct_nontrivial = distinct (committed rounds, number of sync requests, number of helper replies)."));
    rep.sample(json!({"scenario": format!("{:?}", grid[grid.len() / 2]), "outcome": results[grid.len() / 2].1}));
    rep.sample(json!({"scenario": format!("{:?}", grid[grid.len() - 1]), "outcome": results[grid.len() - 1].1}));
    rep.assume("one canonical schedule per sim scenario (fixed link delay); the interleavings of the sync path on a single node (child before parent, duplicates, every learning order, sync requests in every state) are covered exhaustively within their bounds by the chain and solo engines, whose counts are reported under states / transitions");
    rep.finish()
}

// ---------------------------------------------------------------------------------------------
// C13
// ---------------------------------------------------------------------------------------------

#[derive(Clone, Debug)]
struct Sc13 {
    placement: u8,          // bitmask of nodes that receive transactions
    txs_per_node: usize,    // 1 or 2; 40..250 in the burst scenarios
    slow_links: Vec<(usize, usize)>,
    lost_batch: Option<(usize, usize)>, // (author, node that misses the broadcast)
    mute_author: bool,      // the author never answers the BatchRequest (only the retry can succeed)
}

fn run_c13(sc: &Sc13) -> (Vec<(String, String)>, Value) {
    let n = 4;
    let params = mempool::Parameters { gc_depth: 50, sync_retry_delay: 1_000, sync_retry_nodes: 3, batch_size: 10, max_batch_delay: 50 };
    let mut sim = Sim::new(&[1, 1, 1, 1], true, DELTA_T * 3, 5_000, DELTA, Some(params));
    sim.keep_trace = true;
    let mut bad: Vec<(String, String)> = Vec::new();
    let slow = sc.slow_links.clone();
    let lost = sc.lost_batch;
    let mute = sc.mute_author;
    let mut dropped_batches = 0u64;
    let mut muted_requests = 0u64;
    let mut timeouts_seen = 0u64;
    let mut policy = |f: &FrameInfo| -> Verdict {
        let mut d = DELTA;
        if slow.iter().any(|(a, b)| (*a == f.src && *b == f.dst) || (*a == f.dst && *b == f.src)) {
            d = 40 * DELTA;
        }
        match f.kind {
            Kind::Mempool => match bincode::deserialize::<MempoolMessage>(f.bytes) {
                Ok(MempoolMessage::Batch(_)) => {
                    if let Some((a, j)) = lost {
                        // only the author's own broadcast is lost, not later sync replies
                        if f.src == a && f.dst == j && dropped_batches == 0 {
                            dropped_batches += 1;
                            return Verdict::Drop;
                        }
                    }
                }
                Ok(MempoolMessage::BatchRequest(_, _)) => {
                    if let Some((a, j)) = lost {
                        let _ = a;
                        if mute && f.src == j && muted_requests == 0 {
                            muted_requests += 1;
                            return Verdict::Drop;
                        }
                    }
                }
                _ => {}
            },
            Kind::Consensus => {
                if let Some(ConsensusMessage::Timeout(_)) = decode_consensus(f.bytes) {
                    timeouts_seen += 1;
                }
            }
            _ => {}
        }
        Verdict::Deliver(d)
    };
    // let the system run a little, then submit
    sim.run_until(300, G, &mut policy);
    let mut submitted: Vec<(usize, Vec<u8>)> = Vec::new();
    for i in 0..n {
        if sc.placement & (1 << i) != 0 {
            for k in 0..sc.txs_per_node {
                let tx: Vec<u8> = vec![0xA0 + i as u8, k as u8, 1, 2, 3, 4, 5, 6, 7, 8, 9, 10];
                sim.submit_tx(i, &tx);
                submitted.push((i, tx));
            }
        }
    }
    sim.run_until(300 + 7_000, G, &mut policy);
    drop(policy);
    // oracle
    let mut batch_of_tx: HashMap<Vec<u8>, (Digest, Vec<u8>)> = HashMap::new();
    for (_, _, _, kind, bytes) in &sim.trace {
        if *kind == Kind::Mempool {
            if let Ok(MempoolMessage::Batch(txs)) = bincode::deserialize::<MempoolMessage>(bytes) {
                for t in txs {
                    batch_of_tx.entry(t).or_insert((sha(bytes), bytes.clone()));
                }
            }
        }
    }
    let judged = timeouts_seen == 0;
    if judged {
        for (i, tx) in &submitted {
            match batch_of_tx.get(tx) {
                None => bad.push(("tx-not-batched".into(), format!("the transaction submitted to n{} never appeared in a broadcast batch", i))),
                Some((d, bytes)) => {
                    for node in 0..n {
                        let committed = sim.commits[node].iter().any(|(_, b)| b.payload.contains(d));
                        if !committed {
                            bad.push(("tx-not-committed".into(), format!("the batch holding the transaction submitted to n{} is not referenced by any block committed by n{} (7 s after submission, no view change)", i, node)));
                        }
                        let stored = sim.nodes[node].as_mut().and_then(|nd| nd.store_read(&d.to_vec()));
                        if stored.as_ref() != Some(bytes) {
                            bad.push(("batch-not-in-store".into(), format!("the batch holding the transaction submitted to n{} is not readable from n{}'s store", i, node)));
                        }
                    }
                }
            }
        }
        if let Some((a, j)) = sc.lost_batch {
            if dropped_batches > 0 {
                let asked = sim.trace.iter().any(|(_, src, _, kind, bytes)| *kind == Kind::Mempool && *src == j && matches!(bincode::deserialize::<MempoolMessage>(bytes), Ok(MempoolMessage::BatchRequest(_, _))));
                if !asked {
                    bad.push(("no-batch-request".into(), format!("n{} missed n{}'s batch broadcast but never sent a BatchRequest", j, a)));
                }
            }
        }
    }
    for i in 0..n {
        if let Some(e) = sim.check_chain(i) {
            bad.push(("chain".into(), e));
        }
    }
    if let Some(e) = sim.check_agreement() {
        bad.push(("agreement".into(), e));
    }
    for (i, p) in &sim.panics {
        bad.push(("panic".into(), format!("node n{} panicked: {}", i, p)));
    }
    let info = json!({"judged": judged, "committed_rounds": (0..n).map(|i| sim.committed_round(i)).collect::<Vec<_>>(), "batches_dropped": dropped_batches, "requests_muted": muted_requests, "transactions": submitted.len()});
    (bad, info)
}

/// C13 (b): every sequence of Synchronize commands (overlapping digest lists, two targets) and
/// batch arrivals on the real mempool stack: a digest that is missing locally must have been
/// requested from a peer by the time the command has been handled, and again after the retry delay.
fn c13_sync_sequences(rep: &mut Report, tier: Tier) {
    use crate::driver::MempoolNode;
    use crate::world::{World, MEMPOOL_PORT0};
    use mempool::ConsensusMempoolMessage;
    #[derive(Clone, Copy, Debug, PartialEq)]
    enum Op {
        Sync(u8, usize), // bitmask-ordered digest list id, target
        Arrive(usize),
        Wait,
        Cleanup(u64), // consensus reports its round: 1 (nothing is gc_depth rounds old) or 60 (requests tagged <= 10 are collected)
    }
    let lists: Vec<Vec<usize>> = vec![vec![0], vec![1], vec![0, 1], vec![1, 0]];
    let mut alphabet = Vec::new();
    for l in 0..lists.len() {
        for t in [1usize, 2] {
            alphabet.push(Op::Sync(l as u8, t));
        }
    }
    alphabet.push(Op::Arrive(0));
    alphabet.push(Op::Arrive(1));
    alphabet.push(Op::Wait);
    alphabet.push(Op::Cleanup(1));
    alphabet.push(Op::Cleanup(60));
    let maxlen = tier.pick(3usize, 4usize);
    let mut seqs: Vec<Vec<Op>> = Vec::new();
    fn rec<T: Clone>(len: usize, a: &[T], cur: &mut Vec<T>, out: &mut Vec<Vec<T>>) {
        if !cur.is_empty() {
            out.push(cur.clone());
        }
        if cur.len() == len {
            return;
        }
        for e in a {
            cur.push(e.clone());
            rec(len, a, cur, out);
            cur.pop();
        }
    }
    rec(maxlen, &alphabet, &mut Vec::new(), &mut seqs);
    let w = World::new(&[1, 1, 1, 1]);
    let batches: Vec<Vec<u8>> = vec![
        bincode::serialize(&MempoolMessage::Batch(vec![vec![1u8; 4]])).unwrap(),
        bincode::serialize(&MempoolMessage::Batch(vec![vec![2u8; 6], vec![3u8]])).unwrap(),
    ];
    let digests: Vec<Digest> = batches.iter().map(|b| sha(b)).collect();
    let results = par_map(seqs.len(), ncpu(), |i| {
        let seq = &seqs[i];
        let params = mempool::Parameters { gc_depth: 50, sync_retry_delay: 1_000, sync_retry_nodes: 3, batch_size: 1_000_000, max_batch_delay: 1_000_000_000 };
        let mut node = MempoolNode::boot(&w, 0, params);
        let mut requested: Vec<HashSet<usize>> = vec![HashSet::new(), HashSet::new()]; // digest -> peers asked
        let mut stored = [false, false];
        let mut bad: Option<(String, String)> = None;
        let mut wanted_since: [Option<usize>; 2] = [None, None];
        // reference garbage collection: a request carries the round consensus last reported when it was
        // registered and is dropped by Cleanup(r) only if r >= gc_depth and tag <= r - gc_depth
        let mut cur_round = 0u64;
        let mut tag: [u64; 2] = [0, 0];
        for (k, op) in seq.iter().enumerate() {
            match op {
                Op::Sync(l, t) => {
                    let ds: Vec<Digest> = lists[*l as usize].iter().map(|x| digests[*x].clone()).collect();
                    let target = w.name(*t);
                    let tx = node.tx_cmd.clone();
                    node.rt.block_on(async move { tx.send(ConsensusMempoolMessage::Synchronize(ds, target)).await.unwrap() });
                    for x in &lists[*l as usize] {
                        if !stored[*x] && wanted_since[*x].is_none() {
                            wanted_since[*x] = Some(k);
                            tag[*x] = cur_round;
                        }
                    }
                }
                Op::Arrive(x) => {
                    node.deliver(MEMPOOL_PORT0, &batches[*x]);
                    stored[*x] = true;
                }
                Op::Wait => {
                    node.rt.run_for(2_100);
                }
                Op::Cleanup(r) => {
                    let tx = node.tx_cmd.clone();
                    let r = *r;
                    node.rt.block_on(async move { tx.send(ConsensusMempoolMessage::Cleanup(r)).await.unwrap() });
                    cur_round = r;
                    if r >= 50 {
                        for x in 0..2 {
                            if wanted_since[x].is_some() && tag[x] <= r - 50 {
                                wanted_since[x] = None;
                                requested[x].clear();
                            }
                        }
                    }
                }
            }
            node.rt.quiesce();
            node.poll_conns();
            for ep in &node.outs {
                let peer = (ep.addr.port() - MEMPOOL_PORT0) as usize;
                for f in ep.read_frames() {
                    if let Ok(MempoolMessage::BatchRequest(ds, _)) = bincode::deserialize::<MempoolMessage>(&f) {
                        for d in ds {
                            if let Some(x) = digests.iter().position(|y| *y == d) {
                                requested[x].insert(peer);
                            }
                        }
                    }
                }
            }
            for x in 0..2 {
                if wanted_since[x].is_some() && !stored[x] && requested[x].is_empty() {
                    bad = Some(("sync-digest-never-requested".into(), format!("after {:?}: batch {} is missing locally and consensus asked for it, but no BatchRequest for it was ever sent", &seq[..=k], x)));
                }
                if matches!(op, Op::Wait) && wanted_since[x].map_or(false, |s| s < k) && !stored[x] && requested[x].len() < 2 {
                    bad = Some(("sync-no-retry".into(), format!("after {:?}: batch {} is still missing after the retry delay but the request was not repeated to other peers (asked: {:?})", &seq[..=k], x, requested[x])));
                }
            }
            if bad.is_some() {
                break;
            }
        }
        for p in node.rt.panics() {
            bad = Some(("panic".into(), format!("a mempool task panicked: {}", p)));
        }
        bad
    });
    // periodic re-delivery: consensus re-issues the same Synchronize command every p ms (the same
    // block reaching it again) while the first target stays silent: the retry with other peers must
    // still happen once the request is older than the retry delay
    let mut redelivery = 0u64;
    for period in [300u64, 600, 900, 1_500] {
        for l in 0..lists.len() {
            redelivery += 1;
            let params = mempool::Parameters { gc_depth: 50, sync_retry_delay: 1_000, sync_retry_nodes: 3, batch_size: 1_000_000, max_batch_delay: 1_000_000_000 };
            let mut node = MempoolNode::boot(&w, 0, params);
            let mut asked: Vec<HashSet<usize>> = vec![HashSet::new(), HashSet::new()];
            let mut t = 0u64;
            while t < 6_000 {
                let ds: Vec<Digest> = lists[l].iter().map(|x| digests[*x].clone()).collect();
                let target = w.name(1);
                let tx = node.tx_cmd.clone();
                node.rt.block_on(async move { tx.send(ConsensusMempoolMessage::Synchronize(ds, target)).await.unwrap() });
                node.rt.run_for(period);
                t += period;
                node.poll_conns();
                for ep in &node.outs {
                    let peer = (ep.addr.port() - MEMPOOL_PORT0) as usize;
                    for f in ep.read_frames() {
                        if let Ok(MempoolMessage::BatchRequest(ds, _)) = bincode::deserialize::<MempoolMessage>(&f) {
                            for d in ds {
                                if let Some(x) = digests.iter().position(|y| *y == d) {
                                    asked[x].insert(peer);
                                }
                            }
                        }
                    }
                }
            }
            for x in &lists[l] {
                if asked[*x].len() < 2 {
                    rep.violation("e2e:sync-no-retry-under-redelivery".into(), format!("[mempool synchronizer] the Synchronize command for batches {:?} was re-issued every {} ms for 6 s while the first target stayed silent: batch {} was only ever requested from {:?}, never from other peers (retry delay 1000 ms)", lists[l], period, x, asked[*x]), json!({"engine":"seq-mempool-sync","redelivery_period_ms":period,"list":lists[l]}));
                }
            }
        }
    }
    rep.set("sync_redelivery_patterns", json!(redelivery));
    // the serving side: the real mempool Helper answers a BatchRequest with EVERY listed batch it
    // holds, byte for byte, to the requestor's mempool address (a block may reference several
    // batches the requestor lacks; all of them travel in one request)
    {
        let req_lists: Vec<Vec<usize>> = vec![vec![0], vec![1], vec![0, 1], vec![1, 0], vec![0, 0], vec![2], vec![2, 0], vec![0, 2, 1]];
        let mut helper_cases = 0u64;
        for stored_mask in 0..4u8 {
            for l in &req_lists {
                for origin in [1usize, 3] {
                    helper_cases += 1;
                    let params = mempool::Parameters { gc_depth: 50, sync_retry_delay: 1_000, sync_retry_nodes: 3, batch_size: 1_000_000, max_batch_delay: 1_000_000_000 };
                    let mut node = MempoolNode::boot(&w, 0, params);
                    for x in 0..2 {
                        if stored_mask & (1 << x) != 0 {
                            node.deliver(MEMPOOL_PORT0, &batches[x]);
                        }
                    }
                    node.rt.quiesce();
                    node.poll_conns();
                    for ep in &node.outs {
                        let _ = ep.read_frames();
                    }
                    let unknown = Digest([0x5a; 32]);
                    let ds: Vec<Digest> = l.iter().map(|x| if *x < 2 { digests[*x].clone() } else { unknown.clone() }).collect();
                    let req = bincode::serialize(&MempoolMessage::BatchRequest(ds, w.name(origin))).unwrap();
                    node.deliver(MEMPOOL_PORT0, &req);
                    node.rt.quiesce();
                    node.poll_conns();
                    let mut got: Vec<(usize, Vec<u8>)> = Vec::new();
                    for ep in &node.outs {
                        let peer = (ep.addr.port() - MEMPOOL_PORT0) as usize;
                        for f in ep.read_frames() {
                            got.push((peer, f));
                        }
                    }
                    for x in l.iter().filter(|x| **x < 2) {
                        let held = stored_mask & (1 << x) != 0;
                        let served = got.iter().any(|(p, f)| *p == origin && *f == batches[*x]);
                        if held && !served {
                            rep.violation("e2e:batch-request-not-fully-served".into(), format!("[mempool helper] n0 holds batches {:?}; a BatchRequest from n{} for {:?} was not answered with batch {} (frames sent: {:?})", (0..2).filter(|b| stored_mask & (1 << b) != 0).collect::<Vec<_>>(), origin, l, x, got.iter().map(|(p, f)| (*p, f.len())).collect::<Vec<_>>()), json!({"engine":"seq-mempool-sync","helper_request":l,"stored_mask":stored_mask,"origin":origin}));
                        }
                    }
                    for (p, f) in &got {
                        if *p != origin || !batches.iter().any(|b| b == f) {
                            rep.violation("e2e:batch-request-wrong-reply".into(), format!("[mempool helper] a BatchRequest from n{} for {:?} produced a frame of {} bytes to n{} that is not one of the stored batches for the requestor", origin, l, f.len(), p), json!({"engine":"seq-mempool-sync","helper_request":l,"stored_mask":stored_mask,"origin":origin}));
                        }
                    }
                    for pn in node.rt.panics() {
                        rep.violation("e2e:panic".into(), format!("[mempool helper] a mempool task panicked: {}", pn), json!({"engine":"seq-mempool-sync","helper_request":l}));
                    }
                }
            }
        }
        rep.set("helper_request_cases", json!(helper_cases));
    }
    let mut n_bad = 0;
    for (i, b) in results.iter().enumerate() {
        if let Some((sig, what)) = b {
            n_bad += 1;
            rep.violation(format!("e2e:{}", sig), format!("[mempool synchronizer] {}", what), json!({"engine":"seq-mempool-sync","sequence":format!("{:?}", seqs[i])}));
        }
    }
    println!("  mempool synchronizer: command sequences={} failing={}", seqs.len(), n_bad);
    rep.set("sync_command_sequences", json!(seqs.len()));
}

pub fn c13(tier: Tier) -> i32 {
    let mut rep = Report::new("C13", tier, "fault_enumeration");
    let mut grid: Vec<Sc13> = Vec::new();
    let placements: Vec<u8> = (1..16).collect();
    // bursts: one node (or all) receives many transactions at once, each sealing its own batch, so
    // that far more batch digests are pending than one block has carried so far (fault-free)
    for (p, k) in tier.pick(vec![(1u8, 40usize), (4, 150)], vec![(1u8, 40usize), (2, 40), (4, 150), (8, 150), (15, 40), (1, 250)]) {
        grid.push(Sc13 { placement: p, txs_per_node: k, slow_links: vec![], lost_batch: None, mute_author: false });
    }
    let link_sets: Vec<Vec<(usize, usize)>> = tier.pick(vec![vec![], vec![(0, 2)], vec![(0, 1), (2, 3)]], vec![vec![], vec![(0, 1)], vec![(0, 2)], vec![(1, 3)], vec![(0, 1), (2, 3)], vec![(0, 2), (1, 2)]]);
    for &p in &placements {
        for k in 1..=tier.pick(1usize, 2usize) {
            for links in &link_sets {
                grid.push(Sc13 { placement: p, txs_per_node: k, slow_links: links.clone(), lost_batch: None, mute_author: false });
                for a in 0..4usize {
                    if p & (1 << a) == 0 {
                        continue;
                    }
                    for j in 0..4usize {
                        if j == a {
                            continue;
                        }
                        for mute in [false, true] {
                            if tier == Tier::Quick && !links.is_empty() && (j + a) % 2 == 0 {
                                continue;
                            }
                            grid.push(Sc13 { placement: p, txs_per_node: k, slow_links: links.clone(), lost_batch: Some((a, j)), mute_author: mute });
                        }
                    }
                }
            }
        }
    }
    c13_sync_sequences(&mut rep, tier);
    let results = par_map(grid.len(), ncpu(), |i| run_c13(&grid[i]));
    let mut outcomes: BTreeSet<String> = BTreeSet::new();
    let mut best: BTreeMap<String, (usize, String)> = BTreeMap::new();
    let mut not_judged = 0u64;
    let mut fetched = 0u64;
    for (i, (bad, info)) in results.iter().enumerate() {
        outcomes.insert(info.to_string());
        if info["judged"] != json!(true) {
            not_judged += 1;
        }
        if info["batches_dropped"].as_u64().unwrap_or(0) > 0 {
            fetched += 1;
        }
        for (sig, what) in bad {
            best.entry(sig.clone()).or_insert((i, what.clone()));
        }
    }
    for (sig, (i, what)) in &best {
        rep.violation(format!("e2e:{}", sig), format!("[scenario {:?}] {}", grid[*i], what), json!({"engine":"sim","check":"c13","scenario":format!("{:?}", grid[*i]),"params":json!({"placement":grid[*i].placement,"txs_per_node":grid[*i].txs_per_node,"slow_links":grid[*i].slow_links,"lost_batch":grid[*i].lost_batch,"mute_author":grid[*i].mute_author})}));
    }
    println!("  sim/end-to-end: scenarios={} distinct outcomes={} with a lost batch broadcast={} not judged (a view change occurred)={}", grid.len(), outcomes.len(), fetched, not_judged);
    rep.set("evaluations", json!(grid.len()));
    rep.set("distinct_nontrivial", json!(outcomes.len()));
    rep.set("scenarios_with_lost_batch_broadcast", json!(fetched));
    rep.set("scenarios_not_judged_because_of_a_view_change", json!(not_judged));
    rep.set("exhaustive", json!(true));
    rep.set("rule", json!("grid: which nodes receive client transactions (subsets) x 1-2 transactions each x slow links (40x the base delay, below the timeout) x loss of one author's batch broadcast towards one node x the first BatchRequest of that node left unanswered (so only the retry with other peers can succeed). 4 real full nodes (mempool + consensus + shared store), one deterministic virtual-time execution per grid point, 7 virtual seconds after submission. Oracle (only if no view change occurred): every transaction is in a broadcast batch whose digest is in the payload of a block committed by every node and whose exact bytes are readable from every node's store; a node that missed a broadcast sent a BatchRequest; chains and agreement monitors; no panic."));
    rep.sample(json!({"scenario": format!("{:?}", grid[grid.len() / 2]), "outcome": results[grid.len() / 2].1}));
    rep.sample(json!({"scenario": format!("{:?}", grid[grid.len() - 1]), "outcome": results[grid.len() - 1].1}));
    rep.assume("one canonical schedule per scenario; fault-free consensus (no crash) as the property states");
    rep.finish()
}

// ---------------------------------------------------------------------------------------------
// C01 (second engine): enumerated Byzantine strategies against three real honest nodes
// ---------------------------------------------------------------------------------------------

#[derive(Clone, Debug)]
pub struct ScByz {
    z: usize,
    s1: u8,          // honest nodes (bitmask over the 3 honest, in index order) that get the regular proposal
    s2: u8,          // honest nodes that get the stale, TC-justified proposal
    stale_genesis: bool,
    claim_low: bool,
    vote_all: bool,
    /// frames from this honest node to the other honest nodes take 1.3 timeouts during the first
    /// 3 s (a slow sender: others may enter a round through a TC before its proposal arrives)
    hold: Option<usize>,
}

fn run_byz(sc: &ScByz) -> (Vec<(String, String)>, Value) {
    use crate::world::{is_genesis_qc, CONSENSUS_PORT0};
    use consensus::{Block, QC, TC};
    use crypto::{PublicKey, Signature};
    let n = 4;
    let z = sc.z;
    let mut sim = Sim::new(&[1, 1, 1, 1], false, DELTA_T, 10_000, DELTA, None);
    sim.set_byzantine(z);
    let honest: Vec<usize> = (0..n).filter(|i| *i != z).collect();
    let w = crate::world::World::new(&[1, 1, 1, 1]);
    let q = w.ref_quorum();
    let mut blocks: HashMap<Digest, Block> = HashMap::new();
    let mut votes: HashMap<(u64, Digest), BTreeMap<PublicKey, Signature>> = HashMap::new();
    let mut timeouts: HashMap<u64, BTreeMap<PublicKey, (Signature, u64)>> = HashMap::new();
    let mut qcs: BTreeMap<u64, QC> = BTreeMap::new();
    let mut sent_timeout: HashSet<u64> = HashSet::new();
    let mut did_a: HashSet<u64> = HashSet::new();
    let mut did_b: HashSet<u64> = HashSet::new();
    let mut created = 0u64;
    let horizon = 14_000u64;
    let subset = |mask: u8| -> Vec<usize> { honest.iter().enumerate().filter(|(k, _)| mask & (1 << k) != 0).map(|(_, h)| *h).collect() };
    let hold = sc.hold;
    let mut policy = |f: &FrameInfo| -> Verdict {
        if Some(f.src) == hold && f.now < 3_000 {
            Verdict::Deliver(DELTA_T * 13 / 10)
        } else {
            Verdict::Deliver(DELTA)
        }
    };
    while sim.now < horizon {
        let mut step = G;
        if let Some(d) = sim.next_due() {
            step = step.min(d.saturating_sub(sim.now).max(1));
        }
        sim.tick(step, &mut policy);
        let inbox = std::mem::take(&mut sim.byz_inbox);
        let mut out: Vec<(usize, ConsensusMessage)> = Vec::new();
        for (_, src, kind, bytes) in inbox {
            if kind != Kind::Consensus {
                continue;
            }
            match decode_consensus(&bytes) {
                Some(ConsensusMessage::Propose(b)) => {
                    if !is_genesis_qc(&b.qc) {
                        qcs.entry(b.qc.round).or_insert_with(|| b.qc.clone());
                    }
                    if sc.vote_all && blocks.insert(b.digest(), b.clone()).is_none() {
                        let next = w.ref_leader(b.round + 1);
                        let v = w.vote(z, &b);
                        if next == z {
                            votes.entry((b.round, b.digest())).or_default().insert(w.name(z), v.signature);
                        } else {
                            out.push((next, ConsensusMessage::Vote(v)));
                        }
                    } else {
                        blocks.insert(b.digest(), b.clone());
                    }
                }
                Some(ConsensusMessage::Vote(v)) => {
                    if w.ref_valid_vote(&v) {
                        votes.entry((v.round, v.hash.clone())).or_default().insert(v.author, v.signature.clone());
                    }
                }
                Some(ConsensusMessage::Timeout(t)) => {
                    if !is_genesis_qc(&t.high_qc) {
                        qcs.entry(t.high_qc.round).or_insert_with(|| t.high_qc.clone());
                    }
                    timeouts.entry(t.round).or_default().insert(t.author, (t.signature.clone(), t.high_qc.round));
                    if sent_timeout.insert(t.round) {
                        let hq = if sc.claim_low { QC::genesis() } else { qcs.range(..t.round).next_back().map(|x| x.1.clone()).unwrap_or_else(QC::genesis) };
                        let mine = w.timeout(z, t.round, hq);
                        timeouts.entry(t.round).or_default().insert(w.name(z), (mine.signature.clone(), mine.high_qc.round));
                        for h in &honest {
                            out.push((*h, ConsensusMessage::Timeout(mine.clone())));
                        }
                        created += 1;
                    }
                }
                Some(ConsensusMessage::SyncRequest(d, origin)) => {
                    if let (Some(b), Some(o)) = (blocks.get(&d), w.index_of(&origin)) {
                        out.push((o, ConsensusMessage::Propose(b.clone())));
                    }
                }
                _ => {}
            }
            let _ = src;
        }
        // leader actions
        let rounds_led: Vec<u64> = (1..40u64).filter(|r| w.ref_leader(*r) == z).collect();
        for r in rounds_led {
            if !did_a.contains(&r) {
                // regular proposal: a QC for some block of round r-1 formable from the votes received
                let mut found: Option<QC> = None;
                if r == 1 {
                    found = Some(QC::genesis());
                }
                for ((vr, h), vs) in &votes {
                    if *vr + 1 == r {
                        let mut vs = vs.clone();
                        if !vs.contains_key(&w.name(z)) {
                            vs.insert(w.name(z), w.vote_for(z, h.clone(), *vr).signature);
                        }
                        if vs.len() as u64 >= q {
                            found = Some(QC { hash: h.clone(), round: *vr, votes: vs.into_iter().collect() });
                        }
                    }
                }
                if let Some(qc) = found {
                    did_a.insert(r);
                    if !is_genesis_qc(&qc) {
                        qcs.entry(qc.round).or_insert_with(|| qc.clone());
                    }
                    let b = w.block(z, r, qc, None, vec![]);
                    blocks.insert(b.digest(), b.clone());
                    created += 1;
                    for h in subset(sc.s1) {
                        out.push((h, ConsensusMessage::Propose(b.clone())));
                    }
                    if sc.vote_all && w.ref_leader(r + 1) != z {
                        out.push((w.ref_leader(r + 1), ConsensusMessage::Vote(w.vote(z, &b))));
                    }
                }
            }
            if !did_b.contains(&r) && r > 1 {
                // stale proposal justified by a TC of round r-1 assembled from the honest timeouts + its own
                if let Some(ts) = timeouts.get(&(r - 1)) {
                    if ts.len() as u64 >= q {
                        did_b.insert(r);
                        let tc = TC { round: r - 1, votes: ts.iter().map(|(k, (s, h))| (*k, s.clone(), *h)).collect() };
                        let stale = if sc.stale_genesis {
                            QC::genesis()
                        } else {
                            // the second-highest QC known below r (or genesis)
                            let mut it = qcs.range(..r).rev();
                            it.next();
                            it.next().map(|x| x.1.clone()).unwrap_or_else(QC::genesis)
                        };
                        let b = w.block(z, r, stale, Some(tc), vec![]);
                        blocks.insert(b.digest(), b.clone());
                        created += 1;
                        for h in subset(sc.s2) {
                            out.push((h, ConsensusMessage::Propose(b.clone())));
                        }
                        if sc.vote_all && w.ref_leader(r + 1) != z {
                            out.push((w.ref_leader(r + 1), ConsensusMessage::Vote(w.vote(z, &b))));
                        }
                    }
                }
            }
        }
        for (dst, m) in out {
            sim.inject(dst, CONSENSUS_PORT0 + dst as u16, bincode::serialize(&m).unwrap(), DELTA);
        }
    }
    let mut bad = Vec::new();
    // agreement: every two blocks delivered by honest nodes lie on one chain
    let mut all: HashMap<Digest, Block> = blocks.clone();
    for h in &honest {
        for (_, b) in &sim.commits[*h] {
            all.insert(b.digest(), b.clone());
        }
    }
    let ancestor = |a: &Digest, b: &Digest| -> bool {
        let mut cur = b.clone();
        for _ in 0..1000 {
            if cur == *a {
                return true;
            }
            match all.get(&cur) {
                Some(x) if !is_genesis_qc(&x.qc) => cur = x.qc.hash.clone(),
                _ => return false,
            }
        }
        false
    };
    'outer: for a in &honest {
        for b in &honest {
            if a < b {
                for (_, x) in &sim.commits[*a] {
                    for (_, y) in &sim.commits[*b] {
                        let (dx, dy) = (x.digest(), y.digest());
                        if !(ancestor(&dx, &dy) || ancestor(&dy, &dx)) {
                            bad.push(("agreement:conflicting-commits".to_string(), format!("honest nodes n{} and n{} committed blocks of rounds {} and {} that are not on one chain", a, b, x.round, y.round)));
                            break 'outer;
                        }
                    }
                }
            }
        }
    }
    for (i, p) in &sim.panics {
        bad.push(("panic".into(), format!("node n{} panicked: {}", i, p)));
    }
    let info = json!({"committed_rounds": honest.iter().map(|h| sim.committed_round(*h)).collect::<Vec<_>>(), "byzantine_messages": created, "stale_proposals": did_b.len(), "regular_proposals": did_a.len()});
    (bad, info)
}

pub fn c01_strategies(rep: &mut Report, tier: Tier) {
    let mut grid: Vec<ScByz> = Vec::new();
    let zs: Vec<usize> = tier.pick(vec![3, 1], vec![0, 1, 2, 3]);
    for &z in &zs {
        for s1 in 0..8u8 {
            for s2 in 0..8u8 {
                for stale_genesis in [true, false] {
                    for claim_low in [true, false] {
                        for vote_all in [true, false] {
                            if tier == Tier::Quick && !vote_all && !claim_low {
                                continue;
                            }
                            grid.push(ScByz { z, s1, s2, stale_genesis, claim_low, vote_all, hold: None });
                            if vote_all && claim_low {
                                for h in (0..4usize).filter(|h| *h != z) {
                                    grid.push(ScByz { z, s1, s2, stale_genesis, claim_low, vote_all, hold: Some(h) });
                                }
                            }
                        }
                    }
                }
            }
        }
    }
    let results = par_map(grid.len(), ncpu(), |i| run_byz(&grid[i]));
    let mut outcomes: BTreeSet<String> = BTreeSet::new();
    let mut with_stale = 0u64;
    let mut reported = false;
    for (i, (bad, info)) in results.iter().enumerate() {
        outcomes.insert(info.to_string());
        if info["stale_proposals"].as_u64().unwrap_or(0) > 0 {
            with_stale += 1;
        }
        for (sig, what) in bad {
            if !reported || sig != "agreement:conflicting-commits" {
                rep.violation(sig.clone(), format!("[byzantine strategy {:?}] {}", grid[i], what), json!({"engine":"sim","check":"c01-strategies","scenario":format!("{:?}", grid[i]),"params":json!({"z":grid[i].z,"s1":grid[i].s1,"s2":grid[i].s2,"stale_genesis":grid[i].stale_genesis,"claim_low":grid[i].claim_low,"vote_all":grid[i].vote_all,"hold":grid[i].hold})}));
            }
            if sig == "agreement:conflicting-commits" {
                reported = true;
            }
        }
    }
    println!("  sim/byzantine strategies: scenarios={} distinct outcomes={} scenarios in which a stale TC-justified proposal was sent={}", grid.len(), outcomes.len(), with_stale);
    rep.set("byzantine_strategy_scenarios", json!(grid.len()));
    rep.set("byzantine_strategy_distinct_outcomes", json!(outcomes.len()));
    rep.set("byzantine_strategy_scenarios_with_stale_proposal", json!(with_stale));
    rep.set("byzantine_strategy_grid", json!("Byzantine member position x subset of honest nodes that receive its regular proposal (QC formed from the votes it received + its own) x subset that receive a second, stale proposal for the same round (on the genesis QC or the second-highest known QC, justified by a TC it assembles from the honest timeouts plus its own timeout claiming the lowest or highest QC) x votes for everything | never votes x (for the voting, low-claim strategies) one honest node being a slow sender for the first 3 s (its frames take 1.3 timeouts, so the others can enter a round through a TC before its proposal arrives); the strategy is applied in every round the member leads; it answers sync requests; three real honest nodes, natural timers (1000 ms), 14 virtual seconds, one deterministic schedule per grid point; oracle: all blocks committed by honest nodes pairwise on one chain"));
    rep.sample(json!({"byzantine_strategy": format!("{:?}", grid[grid.len() / 3]), "outcome": results[grid.len() / 3].1}));
}

pub fn debug_byz() {
    for (s1, s2) in [(1u8, 6u8), (2, 5), (4, 3), (1, 7)] {
        let sc = ScByz { z: 3, s1, s2, stale_genesis: true, claim_low: true, vote_all: true, hold: None };
        let (bad, info) = run_byz(&sc);
        println!("{:?} -> {} {:?}", sc, info, bad);
    }
}

fn sc06_json(sc: &Sc06) -> Value {
    json!({
        "n": sc.n,
        "crashes": sc.crashes.iter().map(|(c, at)| match at { CrashAt::Boot => json!({"node": c, "at": "boot"}), CrashAt::AfterProposal(k, r) => json!({"node": c, "at": "proposal", "k": k, "reach": r}) }).collect::<Vec<_>>(),
        "pre": match &sc.pre { Pre::None => json!({"kind": "none"}), Pre::Isolate(x) => json!({"kind": "isolate", "node": x}), Pre::Split => json!({"kind": "split"}), Pre::HoldLinks(l) => json!({"kind": "hold", "links": l}) },
        "window": sc.window,
    })
}

/// Re-run one recorded scenario of a sim-based check and print what the oracle says.
pub fn replay(prop: &str, v: &Value) -> i32 {
    let r = &v["replay"];
    let p = &r["params"];
    let u = |x: &Value| x.as_u64().unwrap_or(0);
    let (bad, info) = match r["check"].as_str().unwrap_or("") {
        "c06" => {
            let crashes = p["crashes"].as_array().cloned().unwrap_or_default().iter().map(|c| (u(&c["node"]) as usize, if c["at"] == "boot" { CrashAt::Boot } else { CrashAt::AfterProposal(u(&c["k"]) as u32, u(&c["reach"]) as u8) })).collect();
            let pre = match p["pre"]["kind"].as_str().unwrap_or("none") {
                "isolate" => Pre::Isolate(u(&p["pre"]["node"]) as usize),
                "split" => Pre::Split,
                "hold" => Pre::HoldLinks(p["pre"]["links"].as_array().cloned().unwrap_or_default().iter().map(|l| (u(&l[0]) as usize, u(&l[1]) as usize)).collect()),
                _ => Pre::None,
            };
            run_c06(&Sc06 { n: u(&p["n"]) as usize, crashes, pre, window: u(&p["window"]) })
        }
        "c07" => run_c07(&Sc07 { j: u(&p["j"]) as usize, start_round: u(&p["start_round"]), len: u(&p["len"]), cut: p["cut"] == true, mute_first_target: p["mute"] == true }),
        "c13" => run_c13(&Sc13 {
            placement: u(&p["placement"]) as u8,
            txs_per_node: u(&p["txs_per_node"]) as usize,
            slow_links: p["slow_links"].as_array().cloned().unwrap_or_default().iter().map(|l| (u(&l[0]) as usize, u(&l[1]) as usize)).collect(),
            lost_batch: if p["lost_batch"].is_null() { None } else { Some((u(&p["lost_batch"][0]) as usize, u(&p["lost_batch"][1]) as usize)) },
            mute_author: p["mute_author"] == true,
        }),
        "c01-strategies" => run_byz(&ScByz { z: u(&p["z"]) as usize, s1: u(&p["s1"]) as u8, s2: u(&p["s2"]) as u8, stale_genesis: p["stale_genesis"] == true, claim_low: p["claim_low"] == true, vote_all: p["vote_all"] == true, hold: p["hold"].as_u64().map(|x| x as usize) }),
        other => {
            eprintln!("this replay file has no re-runnable scenario (check = {:?})", other);
            return 2;
        }
    };
    println!("scenario: {}\noutcome: {}", r["scenario"], info);
    for (sig, what) in &bad {
        println!("[{}] {}", sig, what);
    }
    if bad.is_empty() {
        println!("replay did not reproduce a violation of {}", prop);
        0
    } else {
        1
    }
}
