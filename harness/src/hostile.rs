// C15: no network input crashes a node or takes one of its services down.
// (a) decoder totality: every truncation, single-byte substitution, one-byte insertion/deletion of
//     every valid wire message and key encoding, and all strings of length <= 2, under catch_unwind;
// (b) node level: every surviving mutant and a catalogue of well-formed absurd / cross-component
//     messages is delivered to a live real full node; after every chunk the panic hook must be
//     silent and five functional probes must succeed; a failing chunk is bisected to one message.
use crate::driver::{consensus_frame_needs_ack, Frame, Node, NodeCfg, StoreKind};
use crate::util::{hex, ncpu, par_map, Report, Tier};
use crate::world::{World, CONSENSUS_PORT0, MEMPOOL_PORT0, TX_PORT0};
use consensus::verif::ConsensusMessage;
use consensus::{Block, QC};
use crypto::{Digest, Hash as _, PublicKey, SecretKey, Signature};
use ed25519_dalek::{Digest as _, Sha512};
use mempool::verif::MempoolMessage;
use serde_json::{json, Value};
use std::collections::BTreeMap;
use std::convert::TryInto;
use std::panic::{catch_unwind, AssertUnwindSafe};

fn sha(bytes: &[u8]) -> Digest {
    Digest(Sha512::digest(bytes).as_slice()[..32].try_into().unwrap())
}

fn mutants(valid: &[u8], full: bool) -> Vec<Vec<u8>> {
    let mut out = Vec::new();
    for cut in 0..valid.len() {
        out.push(valid[..cut].to_vec());
    }
    let vals: Vec<u8> = if full { (0..=255u8).collect() } else { vec![0, 1, 2, 3, 4, 5, 0x20, 0x21, 0x2b, 0x2c, 0x2f, 0x3d, 0x41, 0x7f, 0x80, 0xfe, 0xff] };
    for pos in 0..valid.len() {
        for v in &vals {
            if valid[pos] != *v {
                let mut m = valid.to_vec();
                m[pos] = *v;
                out.push(m);
            }
        }
        let mut d = valid.to_vec();
        d.remove(pos);
        out.push(d);
        for v in [0u8, 0xff, 0x41] {
            let mut ins = valid.to_vec();
            ins.insert(pos, v);
            out.push(ins);
        }
    }
    out
}

fn short_strings() -> Vec<Vec<u8>> {
    let mut out = vec![vec![]];
    for a in 0..=255u8 {
        out.push(vec![a]);
    }
    for a in 0..=255u8 {
        for b in 0..=255u8 {
            out.push(vec![a, b]);
        }
    }
    // length-prefix-only strings (u32 variant tag + u64 lengths)
    for tag in 0..6u32 {
        for len in [0u64, 1, 32, 44, 1 << 20, u64::MAX] {
            let mut v = tag.to_le_bytes().to_vec();
            v.extend_from_slice(&len.to_le_bytes());
            out.push(v.clone());
            v.extend_from_slice(&len.to_le_bytes());
            out.push(v);
        }
    }
    out
}

struct Seeds {
    consensus: Vec<(String, Vec<u8>)>,
    mempool: Vec<(String, Vec<u8>)>,
    blocks: Vec<Block>,
    batch: Vec<u8>,
}

fn seeds(w: &World) -> Seeds {
    let b1 = w.block(1, 1, QC::genesis(), None, vec![]);
    let qc1 = w.qc(&b1, &[1, 2, 3]);
    let b2 = w.block(2, 2, qc1.clone(), None, vec![Digest([7; 32])]);
    let tc2 = w.tc(2, &[(1, 1), (2, 0), (3, 1)]);
    let b3 = w.block(3, 3, qc1.clone(), Some(tc2.clone()), vec![]);
    let enc = |m: &ConsensusMessage| bincode::serialize(m).unwrap();
    let consensus = vec![
        ("Propose".to_string(), enc(&ConsensusMessage::Propose(b3.clone()))),
        ("Vote".to_string(), enc(&ConsensusMessage::Vote(w.vote(2, &b1)))),
        ("Timeout".to_string(), enc(&ConsensusMessage::Timeout(w.timeout(3, 2, qc1.clone())))),
        ("TC".to_string(), enc(&ConsensusMessage::TC(tc2))),
        ("SyncRequest".to_string(), enc(&ConsensusMessage::SyncRequest(b1.digest(), w.name(2)))),
    ];
    let batch = bincode::serialize(&MempoolMessage::Batch(vec![vec![1, 2, 3], vec![], vec![4; 9]])).unwrap();
    let mempool = vec![
        ("Batch".to_string(), batch.clone()),
        ("BatchRequest".to_string(), bincode::serialize(&MempoolMessage::BatchRequest(vec![Digest([7; 32]), sha(&batch)], w.name(1))).unwrap()),
    ];
    Seeds { consensus, mempool, blocks: vec![b1, b2, b3], batch }
}

// ---- (a) decoder totality ----

fn decoder_sweep(w: &World, tier: Tier, findings: &mut Vec<(String, String, Value)>) -> (u64, u64, Vec<Vec<u8>>, Vec<Vec<u8>>) {
    let s = seeds(w);
    let full = tier == Tier::Thorough;
    let mut evals = 0u64;
    let mut decoded_ok = 0u64;
    let mut cons_survivors: Vec<Vec<u8>> = Vec::new();
    let mut memp_survivors: Vec<Vec<u8>> = Vec::new();
    let mut check = |kind: &str, name: &str, input: &[u8], findings: &mut Vec<(String, String, Value)>| -> bool {
        let r = match kind {
            "consensus" => catch_unwind(AssertUnwindSafe(|| bincode::deserialize::<ConsensusMessage>(input).is_ok())),
            "mempool" => catch_unwind(AssertUnwindSafe(|| bincode::deserialize::<MempoolMessage>(input).is_ok())),
            "block" => catch_unwind(AssertUnwindSafe(|| bincode::deserialize::<Block>(input).is_ok())),
            "pk-bincode" => catch_unwind(AssertUnwindSafe(|| bincode::deserialize::<PublicKey>(input).is_ok())),
            "sk-bincode" => catch_unwind(AssertUnwindSafe(|| bincode::deserialize::<SecretKey>(input).is_ok())),
            "digest" => catch_unwind(AssertUnwindSafe(|| bincode::deserialize::<Digest>(input).is_ok())),
            "signature" => catch_unwind(AssertUnwindSafe(|| bincode::deserialize::<Signature>(input).is_ok())),
            "pk-json" => catch_unwind(AssertUnwindSafe(|| serde_json::from_slice::<PublicKey>(input).is_ok())),
            "sk-json" => catch_unwind(AssertUnwindSafe(|| serde_json::from_slice::<SecretKey>(input).is_ok())),
            "pk-base64" => catch_unwind(AssertUnwindSafe(|| std::str::from_utf8(input).map(|s| PublicKey::decode_base64(s).is_ok()).unwrap_or(false))),
            "sk-base64" => catch_unwind(AssertUnwindSafe(|| std::str::from_utf8(input).map(|s| SecretKey::decode_base64(s).is_ok()).unwrap_or(false))),
            _ => Ok(false),
        };
        match r {
            Ok(ok) => ok,
            Err(_) => {
                let panics = crate::driver::panics::take(network::simnet::current());
                let site = panics.last().map(|p| p.rsplit(" @ ").next().unwrap_or("").to_string()).unwrap_or_default();
                let sig = format!("decoder-panic:{}:{}", kind, site);
                if !findings.iter().any(|f| f.0 == sig) {
                    findings.push((sig, format!("decoding a {} input ({} mutant, {} bytes) panicked: {}", kind, name, input.len(), panics.last().cloned().unwrap_or_default()), json!({"engine":"hostile","stage":"decoder","decoder":kind,"input_hex":hex(input)})));
                }
                false
            }
        }
    };
    for (name, valid) in &s.consensus {
        for m in mutants(valid, full) {
            evals += 1;
            if check("consensus", name, &m, findings) {
                decoded_ok += 1;
                if cons_survivors.len() < 6000 {
                    cons_survivors.push(m);
                }
            }
        }
    }
    for (name, valid) in &s.mempool {
        for m in mutants(valid, full) {
            evals += 1;
            if check("mempool", name, &m, findings) {
                decoded_ok += 1;
                if memp_survivors.len() < 3000 {
                    memp_survivors.push(m);
                }
            }
        }
    }
    for sst in short_strings() {
        for kind in ["consensus", "mempool", "block", "pk-bincode", "sk-bincode", "digest", "signature", "pk-json", "sk-json", "pk-base64", "sk-base64"] {
            evals += 1;
            if check(kind, "short string", &sst, findings) {
                decoded_ok += 1;
            }
        }
    }
    // stored block (what the Helper reads back)
    let stored = bincode::serialize(&s.blocks[2]).unwrap();
    for m in mutants(&stored, false) {
        evals += 1;
        check("block", "stored block", &m, findings);
    }
    // keys: bincode (length-prefixed base64 string), JSON string, raw base64
    let (pk, sk) = (&w.keys[0].0, &w.keys[0].1);
    let pkb = bincode::serialize(pk).unwrap();
    let skb = bincode::serialize(sk).unwrap();
    for m in mutants(&pkb, full) {
        evals += 1;
        check("pk-bincode", "public key", &m, findings);
    }
    for m in mutants(&skb, false) {
        evals += 1;
        check("sk-bincode", "secret key", &m, findings);
    }
    let pkj = serde_json::to_vec(pk).unwrap();
    let skj = serde_json::to_vec(sk).unwrap();
    for m in mutants(&pkj, false) {
        evals += 1;
        check("pk-json", "public key json", &m, findings);
    }
    for m in mutants(&skj, false) {
        evals += 1;
        check("sk-json", "secret key json", &m, findings);
    }
    // base64 decoders: all strings of length <= 3 over a small alphabet + every truncation of valid ones
    let alpha = [b'A', b'/', b'+', b'=', b'z', b'!'];
    let mut strs: Vec<Vec<u8>> = vec![vec![]];
    for a in alpha {
        strs.push(vec![a]);
        for b in alpha {
            strs.push(vec![a, b]);
            for c in alpha {
                strs.push(vec![a, b, c]);
                strs.push(vec![a, b, c, b'A']);
            }
        }
    }
    let e = pk.encode_base64().into_bytes();
    for cut in 0..=e.len() {
        strs.push(e[..cut].to_vec());
    }
    let e2 = sk.encode_base64().into_bytes();
    for cut in 0..=e2.len() {
        strs.push(e2[..cut].to_vec());
    }
    let mut longer = e.clone();
    longer.extend_from_slice(b"AAAA");
    strs.push(longer);
    for st in strs {
        evals += 2;
        check("pk-base64", "base64 string", &st, findings);
        check("sk-base64", "base64 string", &st, findings);
    }
    for m in mutants(&bincode::serialize(&Digest([3; 32])).unwrap(), false) {
        evals += 1;
        check("digest", "digest", &m, findings);
    }
    for m in mutants(&bincode::serialize(&w.sign(0, &Digest([3; 32]))).unwrap(), false) {
        evals += 1;
        check("signature", "signature", &m, findings);
    }
    (evals, decoded_ok, cons_survivors, memp_survivors)
}

// ---- (b) node level ----

struct Live {
    node: Node,
    t: usize,
    probe_round: u64,
    batch_digest: Digest,
    batch: Vec<u8>,
    probe_counter: u8,
}

fn needs_ack(f: &Frame) -> bool {
    let port = f.dst.port();
    if port >= MEMPOOL_PORT0 {
        bincode::deserialize::<MempoolMessage>(&f.bytes).map(|m| matches!(m, MempoolMessage::Batch(_))).unwrap_or(false)
    } else {
        consensus_frame_needs_ack(f)
    }
}

impl Live {
    fn boot(w: &World, t: usize) -> Self {
        let mut cfg = NodeCfg::consensus_only(t);
        cfg.with_mempool = true;
        cfg.store = StoreKind::Mem;
        cfg.mempool_params = Some(mempool::Parameters { gc_depth: 50, sync_retry_delay: 1_000_000_000, sync_retry_nodes: 3, batch_size: 1, max_batch_delay: 1_000_000_000 });
        let mut node = Node::boot(w, cfg);
        // a peer's batch in the shared store (through the real mempool port)
        let batch = seeds(w).batch;
        node.deliver(MEMPOOL_PORT0 + t as u16, &batch);
        let _ = node.settle(&needs_ack);
        Self { node, t, probe_round: 0, batch_digest: sha(&batch), batch, probe_counter: 0 }
    }

    fn send(&mut self, port: u16, bytes: &[u8]) -> Vec<Frame> {
        self.node.deliver(port, bytes);
        self.node.settle(&needs_ack)
    }

    /// The five functional probes; returns the names of those that failed.
    fn probes(&mut self, w: &World) -> Vec<String> {
        let mut failed = Vec::new();
        let t = self.t;
        let others: Vec<usize> = (0..4).filter(|i| *i != t).collect();
        let my = w.name(t);
        let snap = match self.node.snapshot() {
            Some(s) => s,
            None => return vec!["core-snapshot".into()],
        };
        // (1) the node votes for a valid proposal of its current round
        let mut r = snap.round.max(self.probe_round + 1).max(snap.last_voted_round + 1);
        if w.ref_leader(r) == t || r < snap.round {
            r += 1;
        }
        if r > 1 << 40 {
            return vec!["round-out-of-range".into()];
        }
        let tc = if r > 1 { Some(w.tc(r - 1, &others.iter().map(|o| (*o, 0)).collect::<Vec<_>>())) } else { None };
        let blk = w.block(w.ref_leader(r), r, QC::genesis(), tc, vec![]);
        let frames = self.send(CONSENSUS_PORT0 + t as u16, &bincode::serialize(&ConsensusMessage::Propose(blk.clone())).unwrap());
        self.probe_round = r;
        let voted_wire = frames.iter().any(|f| matches!(bincode::deserialize::<ConsensusMessage>(&f.bytes), Ok(ConsensusMessage::Vote(v)) if v.author == my && v.hash == blk.digest()));
        let voted_local = self.node.snapshot().map_or(false, |s| s.votes.iter().any(|(rr, _, _, signers)| *rr == r && signers.contains(&my)) || s.last_voted_round >= r);
        if !(voted_wire || voted_local) {
            failed.push("vote-for-valid-proposal".to_string());
        }
        // (2) it answers a block sync request
        let req = ConsensusMessage::SyncRequest(blk.digest(), w.name(others[0]));
        let frames = self.send(CONSENSUS_PORT0 + t as u16, &bincode::serialize(&req).unwrap());
        let answered = frames.iter().any(|f| f.dst.port() == CONSENSUS_PORT0 + others[0] as u16 && matches!(bincode::deserialize::<ConsensusMessage>(&f.bytes), Ok(ConsensusMessage::Propose(b)) if b.digest() == blk.digest()));
        if !answered {
            failed.push("answer-block-sync-request".to_string());
        }
        // (3) it answers a batch request
        let req = MempoolMessage::BatchRequest(vec![self.batch_digest.clone()], w.name(others[1]));
        let frames = self.send(MEMPOOL_PORT0 + t as u16, &bincode::serialize(&req).unwrap());
        let answered = frames.iter().any(|f| f.dst.port() == MEMPOOL_PORT0 + others[1] as u16 && f.bytes == self.batch);
        if !answered {
            failed.push("answer-batch-request".to_string());
        }
        // (4) it seals and broadcasts a batch for a fresh transaction, and announces it to consensus
        self.probe_counter = self.probe_counter.wrapping_add(1);
        let tx = vec![0xEE, self.probe_counter, 1, 2, 3];
        let frames = self.send(TX_PORT0 + t as u16, &tx);
        let sealed = frames.iter().any(|f| f.dst.port() >= MEMPOOL_PORT0 && f.dst.port() < TX_PORT0 && matches!(bincode::deserialize::<MempoolMessage>(&f.bytes), Ok(MempoolMessage::Batch(b)) if b.contains(&tx)));
        if !sealed {
            failed.push("batch-client-transaction".to_string());
        }
        // (5) the timer path is alive: firing it produces a timeout broadcast
        self.node.fire_timer();
        let frames = self.node.settle(&needs_ack);
        let timed_out = frames.iter().any(|f| matches!(bincode::deserialize::<ConsensusMessage>(&f.bytes), Ok(ConsensusMessage::Timeout(x)) if x.author == my));
        if !timed_out {
            failed.push("timeout-broadcast".to_string());
        }
        failed
    }
}

#[derive(Clone)]
struct Hostile {
    port_kind: u8, // 0 consensus, 1 mempool, 2 tx
    bytes: Vec<u8>,
    raw: bool,     // written without framing (partial frames / garbage), then the connection is closed
    desc: String,
}

fn catalogue(w: &World, t: usize) -> Vec<Hostile> {
    let s = seeds(w);
    let mut v = Vec::new();
    let c = |m: ConsensusMessage, d: &str| Hostile { port_kind: 0, bytes: bincode::serialize(&m).unwrap(), raw: false, desc: d.to_string() };
    let mp = |m: MempoolMessage, d: &str| Hostile { port_kind: 1, bytes: bincode::serialize(&m).unwrap(), raw: false, desc: d.to_string() };
    let batch_digest = sha(&s.batch);
    let others: Vec<usize> = (0..4).filter(|i| *i != t).collect();
    let outsider = crate::world::keys(6).into_iter().map(|k| k.0).find(|k| w.index_of(k).is_none()).unwrap();
    // absurd rounds
    // (signed by ONE Byzantine member only: a quorum of valid signatures on absurd content is
    // outside the threat model, f = 1)
    let byz = others[0];
    for r in [0u64, u64::MAX, u64::MAX - 1, 1 << 63] {
        v.push(c(ConsensusMessage::Propose(w.block(byz, r, QC::genesis(), None, vec![])), &format!("proposal for round {}", r)));
        v.push(c(ConsensusMessage::Vote(w.vote_for(byz, Digest([1; 32]), r)), &format!("vote for round {}", r)));
        v.push(c(ConsensusMessage::Timeout(w.timeout(byz, r, QC::genesis())), &format!("timeout for round {}", r)));
        v.push(c(ConsensusMessage::TC(w.tc(r, &[(byz, 0)])), &format!("single-signer TC for round {}", r)));
        v.push(c(ConsensusMessage::TC(w.tc(r, &[(byz, u64::MAX)])), &format!("single-signer TC for round {} claiming QC round u64::MAX", r)));
        let qc = w.qc_for(Digest([2; 32]), r, &[byz]);
        v.push(c(ConsensusMessage::Timeout(w.timeout(byz, r, qc.clone())), &format!("timeout carrying a single-signer QC of round {}", r)));
        v.push(c(ConsensusMessage::Propose(w.block(byz, r.wrapping_add(1), qc, None, vec![])), &format!("proposal extending a single-signer QC of round {}", r)));
    }
    // certificates with zero / duplicate / non-member signers
    v.push(c(ConsensusMessage::TC(consensus::TC { round: 1, votes: vec![] }), "TC without signers"));
    let mut tc = w.tc(1, &[(others[0], 0), (others[0], 0), (others[1], 0)]);
    v.push(c(ConsensusMessage::TC(tc.clone()), "TC with a repeated signer"));
    tc.votes[0].0 = outsider;
    v.push(c(ConsensusMessage::TC(tc), "TC with a non-member signer"));
    v.push(c(ConsensusMessage::Propose(w.block(others[0], 2, QC { hash: Digest([5; 32]), round: 1, votes: vec![] }, None, vec![])), "proposal with an empty QC"));
    v.push(c(ConsensusMessage::Propose(w.block(w.ref_leader(2), 2, QC { hash: Digest([5; 32]), round: 1, votes: vec![] }, Some(consensus::TC { round: 1, votes: vec![] }), vec![])), "proposal with an empty QC and an empty TC"));
    // correctly signed proposals of the legitimate leader (the block digest covers neither the TC nor
    // the QC's signer list) with absurd certificates spliced in: empty / single-signer / repeated-signer
    // TCs of past, current and absurd rounds; the same on top of the QC-carrying blocks
    for (bi, b) in s.blocks.iter().enumerate() {
        for r in [0u64, 1, 2, 5, u64::MAX] {
            let tcs: Vec<(consensus::TC, &str)> = vec![
                (consensus::TC { round: r, votes: vec![] }, "empty"),
                (w.tc(r, &[(byz, 0)]), "single-signer"),
                (w.tc(r, &[(byz, 0), (byz, 0), (byz, 0)]), "repeated-signer"),
                (w.tc(r, &[(byz, u64::MAX)]), "single-signer (claims QC round u64::MAX)"),
            ];
            for (tc, d) in tcs {
                let mut x = b.clone();
                x.tc = Some(tc);
                v.push(c(ConsensusMessage::Propose(x), &format!("valid round-{} proposal of its leader with a spliced {} TC of round {}", bi + 1, d, r)));
            }
        }
        if bi > 0 {
            let mut x = b.clone();
            x.qc.votes.clear();
            v.push(c(ConsensusMessage::Propose(x), &format!("valid round-{} proposal of its leader with the QC's signatures removed", bi + 1)));
            let mut x = b.clone();
            let first = x.qc.votes[0].clone();
            x.qc.votes = vec![first.clone(), first.clone(), first];
            v.push(c(ConsensusMessage::Propose(x), &format!("valid round-{} proposal of its leader with one QC signature repeated three times", bi + 1)));
        }
    }
    // huge payload
    v.push(c(ConsensusMessage::Propose(w.block(w.ref_leader(3), 3, QC::genesis(), None, (0..10_000u32).map(|i| { let mut d = [0u8; 32]; d[..4].copy_from_slice(&i.to_le_bytes()); Digest(d) }).collect())), "proposal with 10^4 payload digests"));
    // sync requests: unknown digest, from a non-member, for a MEMPOOL BATCH in the shared store
    v.push(c(ConsensusMessage::SyncRequest(Digest([9; 32]), w.name(others[0])), "sync request for an unknown digest"));
    v.push(c(ConsensusMessage::SyncRequest(Digest([9; 32]), outsider), "sync request from a non-member"));
    v.push(c(ConsensusMessage::SyncRequest(batch_digest.clone(), w.name(others[0])), "sync request naming a mempool batch stored in the shared store"));
    v.push(c(ConsensusMessage::SyncRequest(batch_digest.clone(), outsider), "sync request from a non-member naming a mempool batch"));
    // special field values, systematically: default / all-ones / genesis-block digests x member /
    // non-member / default / own keys, for every message kind that carries them
    let special_digests = vec![Digest::default(), Digest([0xff; 32]), Block::genesis().digest(), batch_digest.clone(), s.blocks[0].digest()];
    let special_keys = vec![w.name(others[0]), w.name(t), outsider, PublicKey::default(), PublicKey([0xff; 32])];
    for d in &special_digests {
        for k in &special_keys {
            v.push(c(ConsensusMessage::SyncRequest(d.clone(), *k), &format!("sync request for digest {} from key {}", hex(&d.0[..4]), hex(&k.0[..4]))));
            v.push(mp(MempoolMessage::BatchRequest(vec![d.clone()], *k), &format!("batch request for digest {} from key {}", hex(&d.0[..4]), hex(&k.0[..4]))));
        }
        for r in [0u64, 1, 2] {
            v.push(c(ConsensusMessage::Vote(w.vote_for(byz, d.clone(), r)), &format!("vote for digest {} round {}", hex(&d.0[..4]), r)));
            let qc = w.qc_for(d.clone(), r, &[byz]);
            v.push(c(ConsensusMessage::Timeout(w.timeout(byz, r + 1, qc.clone())), &format!("timeout with single-signer QC for digest {} round {}", hex(&d.0[..4]), r)));
            v.push(c(ConsensusMessage::Propose(w.block(byz, r + 1, qc, None, vec![d.clone()])), &format!("proposal by the Byzantine member on a single-signer QC for digest {} round {} with that digest as payload", hex(&d.0[..4]), r)));
            v.push(c(ConsensusMessage::Propose(w.block(w.ref_leader(r + 1), r + 1, QC { hash: d.clone(), round: r, votes: vec![] }, None, vec![])), &format!("leader proposal with an unsigned QC for digest {} round {}", hex(&d.0[..4]), r)));
        }
    }
    // batch requests: block digests, unknown, from non-member, empty list, many
    let b1 = &s.blocks[0];
    v.push(mp(MempoolMessage::BatchRequest(vec![b1.digest()], w.name(others[0])), "batch request naming a consensus block digest"));
    v.push(mp(MempoolMessage::BatchRequest(vec![], w.name(others[0])), "batch request with an empty list"));
    v.push(mp(MempoolMessage::BatchRequest(vec![Digest([8; 32]); 1000], w.name(others[0])), "batch request with 1000 unknown digests"));
    v.push(mp(MempoolMessage::BatchRequest(vec![batch_digest.clone()], outsider), "batch request from a non-member"));
    v.push(mp(MempoolMessage::Batch(vec![]), "empty batch"));
    v.push(mp(MempoolMessage::Batch(vec![vec![]; 1000]), "batch of 1000 empty transactions"));
    // mempool messages on the consensus port and vice versa
    v.push(Hostile { port_kind: 0, bytes: s.batch.clone(), raw: false, desc: "mempool batch sent to the consensus port".into() });
    v.push(Hostile { port_kind: 1, bytes: s.consensus[0].1.clone(), raw: false, desc: "consensus proposal sent to the mempool port".into() });
    v.push(Hostile { port_kind: 2, bytes: s.consensus[0].1.clone(), raw: false, desc: "consensus proposal sent to the transaction port".into() });
    // transaction port: zero-length, tiny, sample-looking, large
    for (tx, d) in [(vec![], "zero-length transaction"), (vec![0u8], "one zero byte"), (vec![0u8; 9], "sample-looking transaction (leading zero, 9 bytes)"), (vec![0u8; 8], "8 zero bytes"), (vec![1u8; 100_000], "100 kB transaction")] {
        v.push(Hostile { port_kind: 2, bytes: tx, raw: false, desc: d.to_string() });
    }
    for k in 0..3u8 {
        v.push(Hostile { port_kind: k, bytes: vec![], raw: false, desc: "zero-length frame".into() });
        v.push(Hostile { port_kind: k, bytes: vec![0, 0, 0, 10, 1, 2], raw: true, desc: "partial frame followed by close".into() });
        v.push(Hostile { port_kind: k, bytes: vec![0xff, 0xff, 0xff, 0xff, 1, 2, 3], raw: true, desc: "frame header announcing 4 GiB followed by close".into() });
        v.push(Hostile { port_kind: k, bytes: vec![0, 0], raw: true, desc: "two bytes followed by close".into() });
    }
    // a block whose author string is a short base64 string (key decoding on the wire)
    let mut short_key = bincode::serialize(&ConsensusMessage::Vote(w.vote(others[0], b1))).unwrap();
    // Vote = tag(4) hash(32) round(8) author(len u64 + 44 chars) ...: shrink the author string to "AAAA"
    let pos = 4 + 32 + 8;
    if short_key.len() > pos + 8 + 44 {
        short_key[pos..pos + 8].copy_from_slice(&4u64.to_le_bytes());
        let tail: Vec<u8> = short_key[pos + 8 + 44..].to_vec();
        short_key.truncate(pos + 8);
        short_key.extend_from_slice(b"AAAA");
        short_key.extend_from_slice(&tail);
        v.push(Hostile { port_kind: 0, bytes: short_key, raw: false, desc: "vote whose author key is the 4-character string \"AAAA\"".into() });
    }
    v
}

fn port_name(k: u8) -> &'static str {
    ["consensus", "mempool", "transaction"][k as usize % 3]
}

fn deliver(live: &mut Live, h: &Hostile) {
    let t = live.t as u16;
    let port = match h.port_kind {
        0 => CONSENSUS_PORT0 + t,
        1 => MEMPOOL_PORT0 + t,
        _ => TX_PORT0 + t,
    };
    if h.raw {
        network::simnet::enter(live.node.rt.ns);
        if let Some(ep) = network::simnet::dial(port) {
            ep.write_raw(&h.bytes);
            live.node.rt.quiesce();
            ep.close();
        }
        let _ = live.node.settle(&needs_ack);
    } else {
        let _ = live.send(port, &h.bytes);
    }
}

fn run_chunk(w: &World, t: usize, items: &[Hostile]) -> (Vec<String>, Vec<String>) {
    let mut live = Live::boot(w, t);
    for h in items {
        deliver(&mut live, h);
    }
    let panics = live.node.rt.panics();
    let failed = live.probes(w);
    let mut p2 = live.node.rt.panics();
    let mut all = panics;
    all.append(&mut p2);
    (all, failed)
}

fn node_level(w: &World, t: usize, items: Vec<Hostile>, findings: &mut Vec<(String, String, Value)>) -> (u64, u64) {
    let chunk = 40usize;
    let chunks: Vec<&[Hostile]> = items.chunks(chunk).collect();
    let results = par_map(chunks.len(), ncpu(), |i| run_chunk(w, t, chunks[i]));
    let mut probes = 0u64;
    for (ci, (panics, failed)) in results.into_iter().enumerate() {
        probes += 5;
        if panics.is_empty() && failed.is_empty() {
            continue;
        }
        // bisect: one message per fresh node
        for h in chunks[ci] {
            let (p, f) = run_chunk(w, t, std::slice::from_ref(h));
            probes += 5;
            if p.is_empty() && f.is_empty() {
                continue;
            }
            let site = p.first().map(|x| x.rsplit(" @ ").next().unwrap_or("").to_string()).unwrap_or_default();
            let sig = if !f.is_empty() { format!("service-down:{}:{}", f.join("+"), site) } else { format!("panic:{}", site) };
            if !findings.iter().any(|x| x.0 == sig) {
                findings.push((
                    sig,
                    format!("after receiving [{}] on the {} port: panics {:?}; functional probes failed: {:?}", h.desc, port_name(h.port_kind), p, f),
                    json!({"engine":"hostile","stage":"node","port":port_name(h.port_kind),"raw":h.raw,"input_hex":hex(&h.bytes[..h.bytes.len().min(4096)]),"description":h.desc}),
                ));
            }
        }
    }
    (items.len() as u64, probes)
}

pub fn c15_part(tier: Tier) -> Value {
    let w = World::new(&[1, 1, 1, 1]);
    let t = 0usize;
    let mut findings: Vec<(String, String, Value)> = Vec::new();
    let (evals, decoded_ok, cons, memp) = decoder_sweep(&w, tier, &mut findings);
    // sanity: a clean node passes all probes
    let (p0, f0) = run_chunk(&w, t, &[]);
    if !p0.is_empty() || !f0.is_empty() {
        crate::util::machinery_error(&format!("C15: functional probes fail on an untouched node: {:?} {:?}", p0, f0));
    }
    let mut items = catalogue(&w, t);
    let n_catalogue = items.len();
    let step = tier.pick(4, 1);
    for m in cons.iter().step_by(step) {
        items.push(Hostile { port_kind: 0, bytes: m.clone(), raw: false, desc: "decodable single-edit mutant of a valid consensus message".into() });
    }
    for m in memp.iter().step_by(step) {
        items.push(Hostile { port_kind: 1, bytes: m.clone(), raw: false, desc: "decodable single-edit mutant of a valid mempool message".into() });
    }
    // undecodable garbage too (a few hundred)
    for m in short_strings().into_iter().step_by(97) {
        for k in 0..3u8 {
            items.push(Hostile { port_kind: k, bytes: m.clone(), raw: false, desc: "short byte string".into() });
        }
    }
    let (delivered, probes) = node_level(&w, t, items, &mut findings);
    json!({
        "build": if cfg!(feature = "benchmark") { "benchmark" } else { "default" },
        "decoder_inputs": evals, "decoder_inputs_that_decode": decoded_ok,
        "node_level_messages": delivered, "catalogue_entries": n_catalogue, "functional_probes": probes,
        "findings": findings.iter().map(|f| json!({"sig": f.0, "what": f.1, "replay": f.2})).collect::<Vec<_>>(),
    })
}

pub fn c15(tier: Tier) -> i32 {
    let mut rep = Report::new("C15", tier, "exploration");
    let mut parts = vec![c15_part(tier)];
    match crate::seq_mempool::run_bench_part("C15", tier) {
        Some(p) => parts.push(p),
        None => crate::util::machinery_error("C15: the benchmark-feature binary (hsv-bench) did not produce a result; run ./check C15 so that it is built"),
    }
    let mut evals = 0u64;
    let mut distinct = 0u64;
    for part in &parts {
        let build = part["build"].as_str().unwrap_or("?").to_string();
        println!("  hostile [{}]: decoder inputs={} (decode ok {}), node-level messages={} (catalogue {}), probes={}", build, part["decoder_inputs"], part["decoder_inputs_that_decode"], part["node_level_messages"], part["catalogue_entries"], part["functional_probes"]);
        evals += part["decoder_inputs"].as_u64().unwrap_or(0) + part["node_level_messages"].as_u64().unwrap_or(0);
        distinct += part["decoder_inputs_that_decode"].as_u64().unwrap_or(0) + part["node_level_messages"].as_u64().unwrap_or(0);
        for f in part["findings"].as_array().cloned().unwrap_or_default() {
            let sig = format!("{}{}", f["sig"].as_str().unwrap_or(""), if build == "benchmark" { "@benchmark-build" } else { "" });
            rep.violation(sig, format!("[{} build] {}", build, f["what"].as_str().unwrap_or("")), f["replay"].clone());
        }
        let mut p = part.clone();
        p.as_object_mut().unwrap().remove("findings");
        let mut prev: Vec<Value> = rep.coverage.get("parts").and_then(|v| v.as_array().cloned()).unwrap_or_default();
        prev.push(p);
        rep.set("parts", Value::Array(prev));
    }
    rep.set("evaluations", json!(evals));
    rep.set("distinct_nontrivial", json!(distinct));
    rep.set("exhaustive", json!(false));
    rep.set("rule", json!("(a) decoders under catch_unwind: every truncation, every single-byte substitution (all 256 values in thorough, 17 representative values in quick), every one-byte deletion and three one-byte insertions at every position of each valid wire message (5 consensus + 2 mempool variants), of a stored block and of key/digest/signature encodings; all byte strings of length <= 2 and length-prefix-only strings against 11 decoders; base64 key decoders on all strings of length <= 3 over a 6-symbol alphabet and every truncation of valid encodings. (b) every mutant that decodes (every 4th in quick) plus a catalogue of well-formed absurd and cross-component messages and raw partial frames is delivered to a live real full node in chunks of 40; after each chunk the panic hook must be silent and 5 functional probes must succeed (vote for a valid proposal, answer a block sync request, answer a batch request, seal+broadcast a client transaction, timeout broadcast); failing chunks are bisected to a single message. distinct_nontrivial = inputs that decode + node-level messages. Both builds."));
    rep.sample(json!({"catalogue_examples": catalogue(&World::new(&[1,1,1,1]), 0).iter().take(8).map(|h| h.desc.clone()).collect::<Vec<_>>()}));
    rep.assume("exhaustive only within the stated mutation distance (one edit) and catalogue, not over all byte strings up to the frame limit");
    rep.finish()
}

fn unhex(s: &str) -> Vec<u8> {
    (0..s.len() / 2).map(|i| u8::from_str_radix(&s[2 * i..2 * i + 2], 16).unwrap_or(0)).collect()
}

pub fn replay(v: &Value) -> i32 {
    let r = &v["replay"];
    let w = World::new(&[1, 1, 1, 1]);
    let input = unhex(r["input_hex"].as_str().unwrap_or(""));
    if r["stage"] == "decoder" {
        let kind = r["decoder"].as_str().unwrap_or("consensus").to_string();
        // re-run the one decoder on the one input
        let res = std::panic::catch_unwind(std::panic::AssertUnwindSafe(|| match kind.as_str() {
            "consensus" => bincode::deserialize::<ConsensusMessage>(&input).is_ok(),
            "mempool" => bincode::deserialize::<MempoolMessage>(&input).is_ok(),
            "block" => bincode::deserialize::<Block>(&input).is_ok(),
            "pk-bincode" => bincode::deserialize::<PublicKey>(&input).is_ok(),
            "sk-bincode" => bincode::deserialize::<SecretKey>(&input).is_ok(),
            "pk-json" => serde_json::from_slice::<PublicKey>(&input).is_ok(),
            "sk-json" => serde_json::from_slice::<SecretKey>(&input).is_ok(),
            "pk-base64" => std::str::from_utf8(&input).map(|s| PublicKey::decode_base64(s).is_ok()).unwrap_or(false),
            "sk-base64" => std::str::from_utf8(&input).map(|s| SecretKey::decode_base64(s).is_ok()).unwrap_or(false),
            "digest" => bincode::deserialize::<Digest>(&input).is_ok(),
            _ => bincode::deserialize::<Signature>(&input).is_ok(),
        }));
        match res {
            Ok(ok) => {
                println!("decoder {} returned {} on the {}-byte input: no panic", kind, if ok { "Ok" } else { "Err" }, input.len());
                0
            }
            Err(_) => {
                println!("decoder {} PANICKED on the {}-byte input", kind, input.len());
                1
            }
        }
    } else {
        let kind = match r["port"].as_str().unwrap_or("consensus") {
            "consensus" => 0u8,
            "mempool" => 1,
            _ => 2,
        };
        let h = Hostile { port_kind: kind, bytes: input, raw: r["raw"] == true, desc: r["description"].as_str().unwrap_or("").to_string() };
        let (p, f) = run_chunk(&w, 0, std::slice::from_ref(&h));
        println!("delivered [{}] to the {} port of a fresh real full node\n  panics: {:?}\n  functional probes failed: {:?}", h.desc, port_name(kind), p, f);
        if p.is_empty() && f.is_empty() {
            println!("replay did not reproduce a violation of C15");
            0
        } else {
            1
        }
    }
}
