use crate::util::Tier;
use consensus::verif::ConsensusMessage;
pub fn interned_messages_for_c20(_tier: Tier) -> Vec<ConsensusMessage> {
    Vec::new()
}
