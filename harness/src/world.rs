// The harness's world: seeded keys, committees, a message factory built on the repository's own
// constructors/digest functions, and *independent* reference oracles (validity, quorum, leader).
use consensus::verif::{ConsensusMessage, Round, Timeout, Vote};
use consensus::{Block, Committee, QC, TC};
use crypto::{generate_keypair, Digest, Hash as _, PublicKey, SecretKey, Signature};
use ed25519_dalek as dalek;
use rand::rngs::StdRng;
use rand::SeedableRng as _;
use std::collections::HashSet;
use std::net::SocketAddr;

pub const CONSENSUS_PORT0: u16 = 9_000;
pub const MEMPOOL_PORT0: u16 = 9_100;
pub const TX_PORT0: u16 = 9_200;

pub fn clone_secret(s: &SecretKey) -> SecretKey {
    SecretKey::decode_base64(&s.encode_base64()).expect("secret key round trip")
}

/// `n` seeded key pairs, sorted by public key (so index i leads rounds r with r % n == i).
pub fn keys(n: usize) -> Vec<(PublicKey, SecretKey)> {
    let mut rng = StdRng::from_seed([7; 32]);
    let mut v: Vec<_> = (0..n).map(|_| generate_keypair(&mut rng)).collect();
    v.sort_by(|a, b| a.0.cmp(&b.0));
    v
}

pub struct World {
    pub keys: Vec<(PublicKey, SecretKey)>,
    pub stakes: Vec<u32>,
    pub committee: Committee,
}

impl World {
    pub fn new(stakes: &[u32]) -> Self {
        let keys = keys(stakes.len());
        let committee = Committee::new(
            keys.iter()
                .enumerate()
                .map(|(i, (k, _))| (*k, stakes[i], consensus_addr(i)))
                .collect(),
            1,
        );
        Self {
            keys,
            stakes: stakes.to_vec(),
            committee,
        }
    }

    pub fn n(&self) -> usize {
        self.keys.len()
    }

    pub fn name(&self, i: usize) -> PublicKey {
        self.keys[i].0
    }

    pub fn index_of(&self, k: &PublicKey) -> Option<usize> {
        self.keys.iter().position(|(p, _)| p == k)
    }

    pub fn secret(&self, i: usize) -> SecretKey {
        clone_secret(&self.keys[i].1)
    }

    pub fn sign(&self, i: usize, d: &Digest) -> Signature {
        Signature::new(d, &self.keys[i].1)
    }

    pub fn total_stake(&self) -> u64 {
        self.stakes.iter().map(|s| *s as u64).sum()
    }

    /// Reference quorum threshold: floor(2n/3) + 1 in wide arithmetic.
    pub fn ref_quorum(&self) -> u64 {
        2 * self.total_stake() / 3 + 1
    }

    /// Reference leader: sorted keys, round robin.
    pub fn ref_leader(&self, round: Round) -> usize {
        (round % self.n() as u64) as usize
    }

    pub fn mempool_committee(&self) -> mempool::Committee {
        mempool::Committee::new(
            self.keys
                .iter()
                .enumerate()
                .map(|(i, (k, _))| (*k, self.stakes[i], tx_addr(i), mempool_addr(i)))
                .collect(),
            1,
        )
    }

    // ---- message factory (correctly signed by the stated author) ----

    pub fn block(&self, author: usize, round: Round, qc: QC, tc: Option<TC>, payload: Vec<Digest>) -> Block {
        let mut b = Block {
            qc,
            tc,
            author: self.name(author),
            round,
            payload,
            signature: Signature::default(),
        };
        b.signature = self.sign(author, &b.digest());
        b
    }

    pub fn vote(&self, author: usize, block: &Block) -> Vote {
        self.vote_for(author, block.digest(), block.round)
    }

    pub fn vote_for(&self, author: usize, hash: Digest, round: Round) -> Vote {
        let mut v = Vote {
            hash,
            round,
            author: self.name(author),
            signature: Signature::default(),
        };
        v.signature = self.sign(author, &v.digest());
        v
    }

    pub fn qc(&self, block: &Block, signers: &[usize]) -> QC {
        self.qc_for(block.digest(), block.round, signers)
    }

    pub fn qc_for(&self, hash: Digest, round: Round, signers: &[usize]) -> QC {
        let mut qc = QC {
            hash,
            round,
            votes: Vec::new(),
        };
        let d = qc.digest();
        qc.votes = signers.iter().map(|i| (self.name(*i), self.sign(*i, &d))).collect();
        qc
    }

    pub fn timeout(&self, author: usize, round: Round, high_qc: QC) -> Timeout {
        let mut t = Timeout {
            high_qc,
            round,
            author: self.name(author),
            signature: Signature::default(),
        };
        t.signature = self.sign(author, &t.digest());
        t
    }

    pub fn tc(&self, round: Round, entries: &[(usize, Round)]) -> TC {
        let votes = entries
            .iter()
            .map(|(i, hqc)| {
                let t = Timeout {
                    high_qc: QC {
                        hash: Digest::default(),
                        round: *hqc,
                        votes: Vec::new(),
                    },
                    round,
                    author: self.name(*i),
                    signature: Signature::default(),
                };
                (self.name(*i), self.sign(*i, &t.digest()), *hqc)
            })
            .collect();
        TC { round, votes }
    }

    // ---- independent reference validity ----

    fn ref_members_quorum<'a>(&self, names: impl Iterator<Item = &'a PublicKey>) -> bool {
        let mut used = HashSet::new();
        let mut weight = 0u64;
        for k in names {
            if !used.insert(*k) {
                return false;
            }
            match self.index_of(k) {
                Some(i) if self.stakes[i] > 0 => weight += self.stakes[i] as u64,
                _ => return false,
            }
        }
        weight >= self.ref_quorum()
    }

    pub fn ref_valid_qc(&self, qc: &QC) -> bool {
        if is_genesis_qc(qc) {
            return true;
        }
        if !self.ref_members_quorum(qc.votes.iter().map(|(k, _)| k)) {
            return false;
        }
        let d = qc.digest();
        qc.votes.iter().all(|(k, s)| ref_sig_ok(&d, k, s))
    }

    pub fn ref_valid_tc(&self, tc: &TC) -> bool {
        if !self.ref_members_quorum(tc.votes.iter().map(|(k, _, _)| k)) {
            return false;
        }
        tc.votes.iter().all(|(k, s, hqc)| {
            let t = Timeout {
                high_qc: QC {
                    hash: Digest::default(),
                    round: *hqc,
                    votes: Vec::new(),
                },
                round: tc.round,
                author: *k,
                signature: Signature::default(),
            };
            ref_sig_ok(&t.digest(), k, s)
        })
    }

    fn ref_member(&self, k: &PublicKey) -> bool {
        matches!(self.index_of(k), Some(i) if self.stakes[i] > 0)
    }

    pub fn ref_valid_block(&self, b: &Block) -> bool {
        self.ref_member(&b.author)
            && ref_sig_ok(&b.digest(), &b.author, &b.signature)
            && self.ref_valid_qc(&b.qc)
            && b.tc.as_ref().map_or(true, |tc| self.ref_valid_tc(tc))
    }

    pub fn ref_valid_vote(&self, v: &Vote) -> bool {
        self.ref_member(&v.author) && ref_sig_ok(&v.digest(), &v.author, &v.signature)
    }

    pub fn ref_valid_timeout(&self, t: &Timeout) -> bool {
        self.ref_member(&t.author)
            && ref_sig_ok(&t.digest(), &t.author, &t.signature)
            && self.ref_valid_qc(&t.high_qc)
    }

    pub fn ref_valid_msg(&self, m: &ConsensusMessage) -> bool {
        match m {
            ConsensusMessage::Propose(b) => self.ref_valid_block(b),
            ConsensusMessage::Vote(v) => self.ref_valid_vote(v),
            ConsensusMessage::Timeout(t) => self.ref_valid_timeout(t),
            ConsensusMessage::TC(tc) => self.ref_valid_tc(tc),
            ConsensusMessage::SyncRequest(..) => true,
        }
    }
}

pub fn is_genesis_qc(qc: &QC) -> bool {
    qc.hash == Digest::default() && qc.round == 0
}

pub fn sig_bytes(s: &Signature) -> [u8; 64] {
    let v = bincode::serialize(s).expect("signature serialises");
    let mut out = [0u8; 64];
    out.copy_from_slice(&v);
    out
}

pub fn sig_from_bytes(b: &[u8; 64]) -> Signature {
    bincode::deserialize(&b[..]).expect("signature deserialises")
}

/// Strict ed25519 verification using ed25519-dalek directly (not through the crypto crate).
pub fn ref_sig_ok(d: &Digest, k: &PublicKey, s: &Signature) -> bool {
    let key = match dalek::PublicKey::from_bytes(&k.0) {
        Ok(k) => k,
        Err(_) => return false,
    };
    let sig = match dalek::Signature::from_bytes(&sig_bytes(s)) {
        Ok(s) => s,
        Err(_) => return false,
    };
    key.verify_strict(&d.0, &sig).is_ok()
}

pub fn consensus_addr(i: usize) -> SocketAddr {
    format!("127.0.0.1:{}", CONSENSUS_PORT0 + i as u16).parse().unwrap()
}
pub fn mempool_addr(i: usize) -> SocketAddr {
    format!("127.0.0.1:{}", MEMPOOL_PORT0 + i as u16).parse().unwrap()
}
pub fn tx_addr(i: usize) -> SocketAddr {
    format!("127.0.0.1:{}", TX_PORT0 + i as u16).parse().unwrap()
}

pub fn encode(m: &ConsensusMessage) -> Vec<u8> {
    bincode::serialize(m).expect("message serialises")
}

pub fn short(d: &Digest) -> String {
    crate::util::hex(&d.0[..4])
}
