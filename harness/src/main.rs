mod driver;
mod enumchecks;
mod proto;
mod protochecks;
mod seq_aggregator;
mod seq_store;
mod seq_sender;
mod seq_mempool;
mod seq_full;
mod seq_sync;
mod hostile;
mod c04;
mod sim;
mod sim_checks;
mod util;
mod world;
#[path = "/repo/node/src/config.rs"]
#[allow(dead_code)]
mod nodecfg;

use util::Tier;

fn main() {
    let args: Vec<String> = std::env::args().collect();
    if args.len() < 2 {
        eprintln!("usage: hsv <property> [quick|thorough] [--replay <path>]");
        std::process::exit(2);
    }
    let prop = args[1].as_str();
    let tier = match args.get(2).map(|s| s.as_str()) {
        Some("thorough") => Tier::Thorough,
        _ => match std::env::var("VERIF_TIER").ok().as_deref() {
            Some("thorough") if args.get(2).is_none() => Tier::Thorough,
            _ => Tier::Quick,
        },
    };
    driver::panics::install();
    if args.iter().any(|a| a == "--part") {
        let part = match prop {
            "C11" => seq_mempool::c11_part(tier),
            "C15" => hostile::c15_part(tier),
            _ => serde_json::json!({}),
        };
        println!("PART-JSON {}", part);
        std::process::exit(0);
    }
    if args.get(2).map(|s| s.as_str()) == Some("--replay") {
        let path = args.get(3).cloned().unwrap_or_default();
        let code = match prop {
            "C01" | "C02" | "C03" | "C04" | "C05" | "C09" | "C10" | "C19" | "C06" | "C07" | "C13" => {
                let v: Option<serde_json::Value> = std::fs::read(&path).ok().and_then(|d| serde_json::from_slice(&d).ok());
                match v {
                    Some(v) if v["replay"]["engine"] == "seq-full" => {
                        let code = seq_full::replay(&v);
                        if code == 1 {
                            println!("VIOLATION property={} replay={}", prop, path);
                        }
                        code
                    }
                    Some(v) if v["replay"]["engine"] == "seq-sync" => {
                        let code = seq_sync::replay(&v);
                        if code == 1 {
                            println!("VIOLATION property={} replay={}", prop, path);
                        }
                        code
                    }
                    Some(v) if v["replay"]["engine"] == "sim" => {
                        let code = sim_checks::replay(prop, &v);
                        if code == 1 {
                            println!("VIOLATION property={} replay={}", prop, path);
                        }
                        code
                    }
                    _ => protochecks::replay(prop, &path),
                }
            }
            "C08" | "C14" | "C15" | "C16" => {
                let v: serde_json::Value = match std::fs::read(&path).ok().and_then(|d| serde_json::from_slice(&d).ok()) {
                    Some(v) => v,
                    None => {
                        eprintln!("cannot read replay file {}", path);
                        std::process::exit(2);
                    }
                };
                let benchmark = v["signature"].as_str().map_or(false, |s| s.ends_with("@benchmark-build"));
                if benchmark && !cfg!(feature = "benchmark") {
                    let st = std::process::Command::new("/verif/harness/target/release/hsv-bench").args(&args[1..]).status();
                    std::process::exit(st.ok().and_then(|s| s.code()).unwrap_or(2));
                }
                let code = match prop {
                    "C08" => seq_full::replay(&v),
                    "C14" => seq_sender::replay(&v),
                    "C15" => hostile::replay(&v),
                    _ => seq_store::replay(&v),
                };
                if code == 1 {
                    println!("VIOLATION property={} replay={}", prop, path);
                }
                code
            }
            _ => {
                eprintln!("no replay support for {}", prop);
                2
            }
        };
        std::process::exit(code);
    }
    let code = match prop {
        "C01" => protochecks::c01(tier),
        "C02" => protochecks::c02(tier),
        "C03" => protochecks::c03(tier),
        "C04n3" => { let mut rep = util::Report::new("DEV", tier, "model_checking"); c04::run_node(&mut rep, tier, &[1, 1, 1, 1], 3, 3, 3, false); println!("violations: {}", rep.violations.len()); 0 }
        "C04" => c04::c04(tier),
        "C05" => protochecks::c05(tier),
        "C09" => protochecks::c09(tier),
        "C10" => protochecks::c10(tier),
        "C19" => protochecks::c19(tier),
        "C07" => sim_checks::c07(tier),
        "C13" => sim_checks::c13(tier),
        "C05dbg" => {
            use std::sync::Arc;
            use consensus::verif::ConsensusMessage;
            let w = Arc::new(world::World::new(&[1, 1, 1, 1]));
            let uni = proto::universe::Universe::new(w.clone(), true);
            let (mut ln, _) = proto::node::LiveNode::boot(&w, &uni, 0);
            let pd = proto::node::payload_digest(0);
            let b1 = w.block(1, 1, consensus::QC::genesis(), None, vec![]);
            let b2 = w.block(2, 2, w.qc(&b1, &[1, 2, 3]), None, vec![]);
            let f3 = w.block(3, 3, w.qc(&b2, &[1]), None, vec![pd]);
            for m in [ConsensusMessage::Propose(b1), ConsensusMessage::Propose(b2), ConsensusMessage::Propose(f3)] {
                let id = uni.intern(m);
                let r = ln.apply(&uni, proto::universe::Ev::Deliver(id));
                println!("{} -> findings {:?} commits {}", uni.msg(id).desc, r.findings.iter().map(|f| &f.signature).collect::<Vec<_>>(), r.key.hist.commits.len());
            }
            let r = ln.apply(&uni, proto::universe::Ev::Batch(0));
            println!("batch -> findings {:?} commits {} stored {}", r.findings.iter().map(|f| (&f.signature, &f.what)).collect::<Vec<_>>(), r.key.hist.commits.len(), r.key.stored.len());
            0
        }
        "C01dbg" => { sim_checks::debug_byz(); 0 }
        "C01rounds" => { let mut rep = util::Report::new("C01", tier, "model_checking"); proto::rounds::run_c01(&mut rep, tier); println!("violations: {}", rep.violations.len()); for v in &rep.violations { println!("{}", v.what.chars().take(1500).collect::<String>()); } 0 }
        "C06dbg" => { sim_checks::debug_c06(); 0 }
        "C06" => sim_checks::c06(tier),
        "C08" => seq_full::c08(tier),
        "C11dbg" => { seq_mempool::debug_c11(); 0 }
        "C11" => seq_mempool::c11(tier),
        "C12" => seq_mempool::c12(tier),
        "C14" => seq_sender::c14(tier),
        "C15" => hostile::c15(tier),
        "C16" => seq_store::c16(tier),
        "C17" => enumchecks::c17(tier),
        "C18" => enumchecks::c18(tier),
        "C20" => enumchecks::c20(tier),
        "bench" => {
            use std::sync::Arc;
            let w = Arc::new(world::World::new(&[1, 1, 1, 1]));
            let uni = proto::universe::Universe::new(w.clone(), true);
            let t = std::time::Instant::now();
            for _ in 0..100 {
                let (ln, _r) = proto::node::LiveNode::boot(&w, &uni, 0);
                drop(ln);
            }
            println!("boot+drop: {:?} each", t.elapsed() / 100);
            let (mut l1, r1) = proto::node::LiveNode::boot(&w, &uni, 1);
            let (mut l2, _) = proto::node::LiveNode::boot(&w, &uni, 2);
            let b1 = r1.out[0].0;
            let t = std::time::Instant::now();
            for _ in 0..200 {
                let _ = l2.apply(&uni, proto::universe::Ev::Deliver(b1));
            }
            println!("apply proposal (dup): {:?} each", t.elapsed() / 200);
            let t = std::time::Instant::now();
            for _ in 0..50 {
                let _ = l1.apply(&uni, proto::universe::Ev::Timer);
            }
            println!("apply timer: {:?} each", t.elapsed() / 50);
            let t = std::time::Instant::now();
            for _ in 0..1000 {
                l2.node.rt.quiesce();
            }
            println!("quiesce: {:?} each", t.elapsed() / 1000);
            0
        }
        "dev" => {
            // hsv dev <quick|thorough> <h4|h3c|b4> <who> <R> <T> <K> <property>
            let kind = args[3].as_str();
            let who: usize = args[4].parse().unwrap();
            let r: u64 = args[5].parse().unwrap();
            let t: u8 = args[6].parse().unwrap();
            let k: u8 = args[7].parse().unwrap();
            let p = args.get(8).map(|s| s.as_str()).unwrap_or("C02");
            if kind == "solo" {
                let mut rep = util::Report::new("DEV", tier, "model_checking");
                let mut sc = proto::solo::default_cfg(who, r, tier);
                sc.with_votes = t & 1 != 0;
                sc.with_timeouts = t & 2 != 0;
                sc.stale_variants = k & 1 != 0;
                sc.with_payload = k & 2 != 0;
                if let Some(d) = args.get(9).and_then(|x| x.parse().ok()) {
                    sc.max_depth = d;
                }
                proto::solo::run(&mut rep, p, "dev", sc);
                for v in &rep.violations {
                    println!("  finding [{}] {}", v.signature, v.what);
                    println!("     replay: {}", v.replay["events"]);
                }
                println!("{}", serde_json::to_string(&rep.coverage.get("solo_configs").unwrap()[0]["witnesses"]).unwrap());
                std::process::exit(0);
            }
            let cfg = match kind {
                "h4" => proto::cfg_h4(r, t, tier),
                "h3c" => proto::cfg_h3c(who, r, t, tier),
                _ => proto::cfg_b4(who, r, t, k, tier),
            };
            let mut rep = util::Report::new("DEV", tier, "model_checking");
            proto::run_configs(&mut rep, p, vec![cfg], 5);
            for v in &rep.violations {
                println!("  finding [{}] {}", v.signature, v.what);
                println!("     replay: {}", v.replay);
            }
            println!("{}", serde_json::to_string_pretty(&rep.coverage.get("witnesses")).unwrap());
            0
        }
        _ => {
            eprintln!("unknown property {}", prop);
            2
        }
    };
    std::process::exit(code);
}
