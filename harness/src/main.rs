mod driver;
mod enumchecks;
mod proto;
mod util;
mod world;
#[path = "/repo/node/src/config.rs"]
#[allow(dead_code)]
mod nodecfg;

use util::Tier;

fn main() {
    let args: Vec<String> = std::env::args().collect();
    if args.len() < 2 {
        eprintln!("usage: hsv <property> [quick|thorough] [--replay <path>]");
        std::process::exit(2);
    }
    let prop = args[1].as_str();
    let tier = match args.get(2).map(|s| s.as_str()) {
        Some("thorough") => Tier::Thorough,
        _ => match std::env::var("VERIF_TIER").ok().as_deref() {
            Some("thorough") if args.get(2).is_none() => Tier::Thorough,
            _ => Tier::Quick,
        },
    };
    driver::panics::install();
    let code = match prop {
        "C17" => enumchecks::c17(tier),
        "C18" => enumchecks::c18(tier),
        "C20" => enumchecks::c20(tier),
        _ => {
            eprintln!("unknown property {}", prop);
            2
        }
    };
    std::process::exit(code);
}
