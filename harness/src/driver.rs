// NodeDriver: boots real components on a fresh paused current-thread runtime with its own simnet
// namespace, and lets the caller inject one event at a time, run to quiescence and observe.
use crate::util::{machinery_error, Report};
use crate::world::{self, World};
use consensus::verif::{ConsensusMessage, CoreSnapshot};
use consensus::{Block, Consensus};
use crypto::{Digest, Hash as _, SignatureService};
use mempool::{ConsensusMempoolMessage, Mempool};
use network::simnet::{self, Endpoint};
use serde_json::json;
use std::collections::{BTreeMap, HashMap, VecDeque};
use std::net::SocketAddr;
use std::sync::atomic::{AtomicU64, Ordering};
use std::sync::{Arc, Mutex};
use std::time::Duration;
use store::{Store, StoreCommand};
use tokio::sync::mpsc::{channel, Receiver, Sender};
use tokio::sync::oneshot;

static NEXT_NS: AtomicU64 = AtomicU64::new(1);

/// Watchdog against runaway reactions of the code under test (a task that is always ready never
/// lets the paused runtime go idle: the step does not end and its output queues grow without bound).
/// Every thread publishes since when it has been inside one `block_on`; a monitor thread ends the
/// process with a machinery error (exit 2, never a verdict) if one step exceeds the wall bound or
/// the process outgrows the memory bound, instead of letting the kernel kill it.
pub mod watchdog {
    use std::sync::atomic::{AtomicU64, Ordering};
    use std::sync::{Arc, Mutex, Once};
    use std::time::Instant;

    const STEP_WALL_BOUND_S: u64 = 900;

    static START: Once = Once::new();
    static SLOTS: Mutex<Vec<Arc<AtomicU64>>> = Mutex::new(Vec::new());
    static mut T0: Option<Instant> = None;

    thread_local! {
        static SLOT: Arc<AtomicU64> = {
            let a = Arc::new(AtomicU64::new(0));
            SLOTS.lock().unwrap().push(a.clone());
            a
        };
    }

    fn now_ms() -> u64 {
        #[allow(static_mut_refs)]
        unsafe { T0.map(|t| t.elapsed().as_millis() as u64 + 1).unwrap_or(1) }
    }

    /// 40 GB, or HSV_RSS_CAP_MB, and never more than 85 % of the cgroup's memory limit.
    fn rss_bound_kb() -> u64 {
        let mut b: u64 = std::env::var("HSV_RSS_CAP_MB").ok().and_then(|v| v.parse::<u64>().ok()).map(|m| m * 1024).unwrap_or(40 * 1024 * 1024);
        for f in ["/sys/fs/cgroup/memory.max", "/sys/fs/cgroup/memory/memory.limit_in_bytes"] {
            if let Some(limit) = std::fs::read_to_string(f).ok().and_then(|s| s.trim().parse::<u64>().ok()) {
                if limit > 0 && limit < (1u64 << 50) {
                    b = b.min(limit / 1024 * 85 / 100);
                }
            }
        }
        b
    }

    fn rss_kb() -> u64 {
        std::fs::read_to_string("/proc/self/statm").ok().and_then(|s| s.split_whitespace().nth(1).and_then(|x| x.parse::<u64>().ok())).map(|pages| pages * 4).unwrap_or(0)
    }

    pub fn install() {
        START.call_once(|| {
            unsafe {
                T0 = Some(Instant::now());
            }
            let rss_bound = rss_bound_kb();
            std::thread::spawn(move || loop {
                std::thread::sleep(std::time::Duration::from_millis(250));
                let now = now_ms();
                let stuck = SLOTS.lock().unwrap().iter().any(|s| {
                    let since = s.load(Ordering::Relaxed);
                    since != 0 && now.saturating_sub(since) > STEP_WALL_BOUND_S * 1000
                });
                let rss = rss_kb();
                if stuck || rss > rss_bound {
                    crate::util::machinery_error(&format!(
                        "runaway reaction of the code under test: {} - a real node did not become quiescent after one event (an always-ready task / unbounded output). The run is abandoned; this is not a verdict",
                        if stuck { format!("one step has been running for more than {} s", STEP_WALL_BOUND_S) } else { format!("the process grew to {} MB", rss / 1024) }
                    ));
                }
            });
        });
    }

    pub fn enter() {
        SLOT.with(|s| s.store(now_ms(), Ordering::Relaxed));
    }
    pub fn leave() {
        SLOT.with(|s| s.store(0, Ordering::Relaxed));
    }
}

/// Process-wide record of panics (namespace, message). Installed once.
pub mod panics {
    use std::sync::Mutex;
    use std::sync::Once;
    pub static LOG: Mutex<Vec<(u64, String)>> = Mutex::new(Vec::new());
    static INIT: Once = Once::new();
    thread_local! {
        /// When set, panics on this thread are recorded silently (expected while exploring).
        pub static QUIET: std::cell::Cell<bool> = std::cell::Cell::new(true);
    }
    pub fn install() {
        INIT.call_once(|| {
            let default = std::panic::take_hook();
            std::panic::set_hook(Box::new(move |info| {
                let ns = network::simnet::current();
                let loc = info
                    .location()
                    .map(|l| format!("{}:{}", l.file(), l.line()))
                    .unwrap_or_default();
                let msg = if let Some(s) = info.payload().downcast_ref::<&str>() {
                    s.to_string()
                } else if let Some(s) = info.payload().downcast_ref::<String>() {
                    s.clone()
                } else {
                    "?".to_string()
                };
                let in_repo = loc.contains("/repo/") || !loc.contains("harness/src");
                LOG.lock().unwrap().push((ns, format!("{} @ {}", msg, loc)));
                let quiet = QUIET.with(|q| q.get());
                if !(quiet && in_repo) {
                    default(info);
                }
            }));
        });
    }
    /// Remove and return the panics recorded for namespace `ns`.
    pub fn take(ns: u64) -> Vec<String> {
        let mut log = LOG.lock().unwrap();
        let mut out = Vec::new();
        log.retain(|(n, m)| {
            if *n == ns {
                out.push(m.clone());
                false
            } else {
                true
            }
        });
        out
    }
}

/// A paused current-thread runtime bound to one simnet namespace.
pub struct Rt {
    pub rt: tokio::runtime::Runtime,
    pub ns: u64,
}

impl Rt {
    pub fn new() -> Self {
        panics::install();
        watchdog::install();
        let seed = crate::util::seed();
        let rt = tokio::runtime::Builder::new_current_thread()
            .enable_time()
            .start_paused(true)
            .rng_seed(tokio::runtime::RngSeed::from_bytes(&seed.to_le_bytes()))
            .build()
            .expect("runtime");
        let ns = NEXT_NS.fetch_add(1, Ordering::Relaxed);
        Self { rt, ns }
    }

    pub fn block_on<F: std::future::Future>(&self, f: F) -> F::Output {
        simnet::enter(self.ns);
        watchdog::enter();
        let r = self.rt.block_on(f);
        watchdog::leave();
        r
    }

    /// Run until no task is runnable (the 1 ms sleep completes only when the runtime is idle,
    /// because a paused clock auto-advances only then).
    pub fn quiesce(&self) {
        self.block_on(async { tokio::time::sleep(Duration::from_millis(1)).await });
    }

    /// Let `ms` of virtual time pass; internal timers fire at their exact deadlines.
    pub fn run_for(&self, ms: u64) {
        self.block_on(async { tokio::time::sleep(Duration::from_millis(ms)).await });
    }

    /// Jump the clock (fires every timer whose deadline is passed), then run to quiescence.
    pub fn advance(&self, ms: u64) {
        self.block_on(async { tokio::time::advance(Duration::from_millis(ms)).await });
        self.quiesce();
    }

    pub fn panics(&self) -> Vec<String> {
        panics::take(self.ns)
    }
}

impl Drop for Rt {
    fn drop(&mut self) {
        simnet::enter(self.ns);
        simnet::remove(self.ns);
    }
}

/// In-memory store actor with the reference semantics (map + FIFO waiters per key).
pub type MemMap = Arc<Mutex<BTreeMap<Vec<u8>, Vec<u8>>>>;

pub fn mem_store() -> (Store, MemMap) {
    let (tx, mut rx) = channel::<StoreCommand>(100);
    let map: MemMap = Arc::new(Mutex::new(BTreeMap::new()));
    let m = map.clone();
    tokio::spawn(async move {
        let mut obligations: HashMap<Vec<u8>, VecDeque<oneshot::Sender<Result<Vec<u8>, store::StoreError>>>> =
            HashMap::new();
        while let Some(cmd) = rx.recv().await {
            match cmd {
                StoreCommand::Write(k, v) => {
                    m.lock().unwrap().insert(k.clone(), v.clone());
                    if let Some(mut ws) = obligations.remove(&k) {
                        while let Some(s) = ws.pop_front() {
                            let _ = s.send(Ok(v.clone()));
                        }
                    }
                }
                StoreCommand::Read(k, s) => {
                    let r = m.lock().unwrap().get(&k).cloned();
                    let _ = s.send(Ok(r));
                }
                StoreCommand::NotifyRead(k, s) => {
                    let r = m.lock().unwrap().get(&k).cloned();
                    match r {
                        Some(v) => {
                            let _ = s.send(Ok(v));
                        }
                        None => obligations.entry(k).or_default().push_back(s),
                    }
                }
            }
        }
    });
    (Store::verif_from_channel(tx), map)
}

#[derive(Clone, Debug)]
pub struct Frame {
    pub conn: u64,
    pub dst: SocketAddr,
    pub bytes: Vec<u8>,
}

pub enum StoreKind {
    Mem,
    Rocks(String),
}

pub struct NodeCfg {
    pub idx: usize,
    pub with_mempool: bool,
    pub store: StoreKind,
    pub timeout_delay: u64,
    pub sync_retry_delay: u64,
    pub mempool_params: Option<mempool::Parameters>,
}

impl NodeCfg {
    pub fn consensus_only(idx: usize) -> Self {
        Self {
            idx,
            with_mempool: false,
            store: StoreKind::Mem,
            timeout_delay: BIG_DELAY,
            sync_retry_delay: u64::MAX / 8,
            mempool_params: None,
        }
    }
}

/// Timer value used where the harness fires timers explicitly.
pub const BIG_DELAY: u64 = 1_000_000_000;

/// One real node (consensus only, or mempool + consensus on a shared store).
pub struct Node {
    pub rt: Rt,
    pub idx: usize,
    pub outs: Vec<Endpoint>,
    pub inbound: HashMap<u16, Endpoint>,
    pub rx_commit: Receiver<Block>,
    pub rx_to_mempool: Option<Receiver<ConsensusMempoolMessage>>,
    pub tx_digest: Option<Sender<Digest>>,
    pub store: Store,
    pub mem: Option<MemMap>,
    pub name_b64: String,
    pub timeout_delay: u64,
    pub rocks_path: Option<String>,
}

impl Node {
    pub fn boot(world: &World, cfg: NodeCfg) -> Self {
        let rt = Rt::new();
        let idx = cfg.idx;
        let timeout_delay = cfg.timeout_delay;
        let name = world.name(idx);
        let secret = world.secret(idx);
        let committee = world.committee.clone();
        let parameters = consensus::Parameters {
            timeout_delay: cfg.timeout_delay,
            sync_retry_delay: cfg.sync_retry_delay,
        };
        let mut rocks_path = None;
        let (store, mem, rx_commit, rx_to_mempool, tx_digest) = rt.block_on(async {
            let (store, mem) = match &cfg.store {
                StoreKind::Mem => {
                    let (s, m) = mem_store();
                    (s, Some(m))
                }
                StoreKind::Rocks(path) => {
                    rocks_path = Some(path.clone());
                    (Store::new(path).expect("rocksdb open"), None)
                }
            };
            let signature_service = SignatureService::new(secret);
            let (tx_commit, rx_commit) = channel(10_000);
            let (tx_c2m, rx_c2m) = channel(10_000);
            let (tx_m2c, rx_m2c) = channel(10_000);
            let mut keep_rx = None;
            let mut keep_tx = None;
            if cfg.with_mempool {
                Mempool::spawn(
                    name,
                    world.mempool_committee(),
                    cfg.mempool_params.unwrap_or_else(|| mempool::Parameters {
                        gc_depth: 50,
                        sync_retry_delay: 5_000,
                        sync_retry_nodes: world.n() - 1,
                        batch_size: 500_000,
                        max_batch_delay: 100,
                    }),
                    store.clone(),
                    rx_c2m,
                    tx_m2c,
                );
            } else {
                keep_rx = Some(rx_c2m);
                keep_tx = Some(tx_m2c);
            }
            Consensus::spawn(
                name,
                committee,
                parameters,
                signature_service,
                store.clone(),
                rx_m2c,
                tx_c2m,
                tx_commit,
            );
            (store, mem, rx_commit, keep_rx, keep_tx)
        });
        let mut node = Self {
            rt,
            idx,
            outs: Vec::new(),
            inbound: HashMap::new(),
            rx_commit,
            rx_to_mempool,
            tx_digest,
            store,
            mem,
            name_b64: name.encode_base64(),
            timeout_delay,
            rocks_path,
        };
        node.rt.quiesce();
        node
    }

    /// Write one frame on the harness's connection to `port` (dialled lazily, re-dialled if closed).
    pub fn deliver(&mut self, port: u16, bytes: &[u8]) {
        simnet::enter(self.rt.ns);
        let need_dial = match self.inbound.get(&port) {
            Some(ep) => ep.closed_by_node(),
            None => true,
        };
        if need_dial {
            match simnet::dial(port) {
                Some(ep) => {
                    self.inbound.insert(port, ep);
                }
                None => machinery_error(&format!("node {} does not listen on port {}", self.idx, port)),
            }
        }
        self.inbound[&port].write_frame(bytes);
    }

    /// Read every complete frame written by the node since the last call.
    pub fn collect(&mut self) -> Vec<Frame> {
        simnet::enter(self.rt.ns);
        self.outs.extend(simnet::take_outbound());
        let mut frames = Vec::new();
        for ep in &self.outs {
            for bytes in ep.read_frames() {
                frames.push(Frame {
                    conn: ep.id,
                    dst: ep.addr,
                    bytes,
                });
            }
        }
        frames
    }

    pub fn ack(&self, conn: u64, bytes: &[u8]) {
        if let Some(ep) = self.outs.iter().find(|e| e.id == conn) {
            ep.write_frame(bytes);
        }
    }

    /// Run to quiescence, ACKing every frame for which `needs_ack` says so, until no new frames
    /// appear. Returns all frames emitted.
    pub fn settle(&mut self, needs_ack: &dyn Fn(&Frame) -> bool) -> Vec<Frame> {
        let mut all = Vec::new();
        loop {
            self.rt.quiesce();
            let frames = self.collect();
            if frames.is_empty() {
                break;
            }
            for f in &frames {
                if needs_ack(f) {
                    self.ack(f.conn, b"Ack");
                }
            }
            all.extend(frames);
        }
        all
    }

    pub fn fire_timer(&mut self) {
        self.rt.advance(self.timeout_delay);
    }

    pub fn commits(&mut self) -> Vec<Block> {
        let mut v = Vec::new();
        while let Ok(b) = self.rx_commit.try_recv() {
            v.push(b);
        }
        v
    }

    pub fn mempool_cmds(&mut self) -> Vec<ConsensusMempoolMessage> {
        let mut v = Vec::new();
        if let Some(rx) = self.rx_to_mempool.as_mut() {
            while let Ok(m) = rx.try_recv() {
                v.push(m);
            }
        }
        v
    }

    pub fn snapshot(&self) -> Option<CoreSnapshot> {
        simnet::enter(self.rt.ns);
        simnet::board_get::<CoreSnapshot>(&format!("core:{}", self.name_b64))
    }

    pub fn store_read(&mut self, key: &[u8]) -> Option<Vec<u8>> {
        if let Some(m) = &self.mem {
            return m.lock().unwrap().get(key).cloned();
        }
        let mut s = self.store.clone();
        let k = key.to_vec();
        self.rt.block_on(async move { s.read(k).await.ok().flatten() })
    }

    pub fn store_keys(&self) -> Vec<Vec<u8>> {
        match &self.mem {
            Some(m) => m.lock().unwrap().keys().cloned().collect(),
            None => Vec::new(),
        }
    }
}

impl Drop for Node {
    fn drop(&mut self) {
        if let Some(p) = &self.rocks_path {
            let _ = std::fs::remove_dir_all(p);
        }
    }
}

pub fn consensus_frame_needs_ack(f: &Frame) -> bool {
    matches!(
        bincode::deserialize::<ConsensusMessage>(&f.bytes),
        Ok(ConsensusMessage::Propose(_))
    )
}

/// C20: write blocks through the real store and read them back through the real consensus Helper.
pub fn c20_store_helper_roundtrip(w: &World, blocks: &[Block], rep: &mut Report) -> u64 {
    use consensus::verif::Helper;
    let rt = Rt::new();
    let path = format!("/dev/shm/hsv-c20-{}-{}", std::process::id(), rt.ns);
    let _ = std::fs::remove_dir_all(&path);
    let (mut store, tx) = rt.block_on(async {
        let store = Store::new(&path).expect("rocksdb");
        let (tx, rx) = channel(100);
        Helper::spawn(w.committee.clone(), store.clone(), rx);
        (store, tx)
    });
    let mut checked = 0;
    let mut outs: Vec<Endpoint> = Vec::new();
    for b in blocks {
        // exactly what Core::store_block does
        let key = b.digest().to_vec();
        let value = bincode::serialize(b).unwrap();
        rt.block_on(store.write(key, value));
        let d = b.digest();
        rt.block_on(async { tx.send((d.clone(), w.name(0))).await.unwrap() });
        rt.quiesce();
        simnet::enter(rt.ns);
        outs.extend(simnet::take_outbound());
        let mut got = None;
        for ep in &outs {
            for f in ep.read_frames() {
                got = Some(f);
            }
        }
        checked += 1;
        let ok = match got.as_ref().map(|f| bincode::deserialize::<ConsensusMessage>(f)) {
            Some(Ok(ConsensusMessage::Propose(y))) => {
                y.digest() == b.digest()
                    && y.verify(&w.committee).is_ok() == b.verify(&w.committee).is_ok()
                    && bincode::serialize(&y).unwrap() == bincode::serialize(b).unwrap()
            }
            _ => false,
        };
        if !ok {
            rep.violation(
                "roundtrip:helper".into(),
                format!("block {:?} read back through the real store and Helper differs", b),
                json!({"engine":"enum","block":world::short(&b.digest())}),
            );
        }
    }
    drop(store);
    drop(rt);
    let _ = std::fs::remove_dir_all(&path);
    checked
}

/// A real mempool stack alone (tx receiver -> BatchMaker -> ReliableSender -> QuorumWaiter ->
/// Processor -> store / digest channel; mempool receiver -> Helper / Processor; Synchronizer).
pub struct MempoolNode {
    pub rt: Rt,
    pub idx: usize,
    pub outs: Vec<Endpoint>,
    pub inbound: HashMap<u16, Endpoint>,
    pub rx_digest: Receiver<Digest>,
    pub tx_cmd: Sender<ConsensusMempoolMessage>,
    pub mem: MemMap,
    pub store: Store,
}

impl MempoolNode {
    pub fn boot(world: &World, idx: usize, params: mempool::Parameters) -> Self {
        let rt = Rt::new();
        let name = world.name(idx);
        let committee = world.mempool_committee();
        let (store, mem, rx_digest, tx_cmd) = rt.block_on(async {
            let (store, mem) = mem_store();
            let (tx_c2m, rx_c2m) = channel(10_000);
            let (tx_m2c, rx_m2c) = channel(10_000);
            Mempool::spawn(name, committee, params, store.clone(), rx_c2m, tx_m2c);
            (store, mem, rx_m2c, tx_c2m)
        });
        let node = Self { rt, idx, outs: Vec::new(), inbound: HashMap::new(), rx_digest, tx_cmd, mem, store };
        node.rt.quiesce();
        node
    }

    pub fn deliver(&mut self, port: u16, bytes: &[u8]) {
        simnet::enter(self.rt.ns);
        let need_dial = match self.inbound.get(&port) {
            Some(ep) => ep.closed_by_node(),
            None => true,
        };
        if need_dial {
            match simnet::dial(port) {
                Some(ep) => {
                    self.inbound.insert(port, ep);
                }
                None => machinery_error(&format!("mempool {} does not listen on port {}", self.idx, port)),
            }
        }
        self.inbound[&port].write_frame(bytes);
    }

    /// New connections opened by the node since the last call are appended to `outs`.
    pub fn poll_conns(&mut self) {
        simnet::enter(self.rt.ns);
        self.outs.extend(simnet::take_outbound());
    }

    pub fn digests(&mut self) -> Vec<Digest> {
        let mut v = Vec::new();
        while let Ok(d) = self.rx_digest.try_recv() {
            v.push(d);
        }
        v
    }
}
