// Engine `sim`: n real nodes (consensus-only or full), each on its own paused runtime, with the
// harness as the network in lock-stepped virtual time. One scenario = one deterministic execution
// under an enumerated fault pattern; checks are exhaustive over the scenario grid.
use crate::driver::{Node, NodeCfg, StoreKind};
use crate::world::{World, CONSENSUS_PORT0, MEMPOOL_PORT0, TX_PORT0};
use consensus::verif::ConsensusMessage;
use consensus::Block;
use crypto::{Digest, Hash as _};
use network::simnet::{self, Endpoint};
use std::collections::{BTreeMap, BTreeSet, BinaryHeap, HashMap};
use std::cmp::Reverse;

#[derive(Clone, Copy, Debug, PartialEq, Eq, Hash, PartialOrd, Ord)]
pub enum Kind {
    Consensus,
    Mempool,
    Tx,
}

pub fn classify(port: u16) -> (Kind, usize) {
    if port >= TX_PORT0 {
        (Kind::Tx, (port - TX_PORT0) as usize)
    } else if port >= MEMPOOL_PORT0 {
        (Kind::Mempool, (port - MEMPOOL_PORT0) as usize)
    } else {
        (Kind::Consensus, (port - CONSENSUS_PORT0) as usize)
    }
}

struct Link {
    src: usize,
    dst: usize,
    port: u16,
    src_ep: Endpoint,
    dst_ep: Option<Endpoint>,
    dead: bool,
    /// the source crashed: nothing more is read from it, but frames already in flight still arrive
    src_gone: bool,
}

#[derive(PartialEq, Eq, PartialOrd, Ord)]
struct Event {
    at: u64,
    seq: u64,
    link: usize,
    back: bool,
    bytes: Vec<u8>,
}

pub struct FrameInfo<'a> {
    pub src: usize,
    pub dst: usize,
    pub kind: Kind,
    pub bytes: &'a [u8],
    pub now: u64,
}

#[derive(Clone, Copy, Debug, PartialEq)]
pub enum Verdict {
    Deliver(u64), // after this many ms
    Drop,
}

pub struct Sim {
    pub w: World,
    pub nodes: Vec<Option<Node>>,
    pub now: u64,
    links: Vec<Link>,
    queue: BinaryHeap<Reverse<Event>>,
    seq: u64,
    pub delta: u64,
    /// per node: (time, block) handed to the application
    pub commits: Vec<Vec<(u64, Block)>>,
    pub cut: BTreeSet<(usize, usize)>,
    pub crashed: BTreeSet<usize>,
    pub full: bool,
    pub panics: Vec<(usize, String)>,
    pub frames_seen: u64,
    /// log of (time, src, dst, kind, decoded consensus message kind) for oracles
    pub trace: Vec<(u64, usize, usize, Kind, Vec<u8>)>,
    pub keep_trace: bool,
    client_eps: HashMap<usize, Endpoint>,
    /// a member played by the harness: frames addressed to it are captured, not delivered
    pub byz: Option<usize>,
    pub byz_inbox: Vec<(u64, usize, Kind, Vec<u8>)>,
    inject_eps: HashMap<(usize, u16), Endpoint>,
    injections: Vec<(u64, usize, u16, Vec<u8>)>,
}

impl Sim {
    pub fn new(stakes: &[u32], full: bool, timeout_delay: u64, sync_retry_delay: u64, delta: u64, mempool_params: Option<mempool::Parameters>) -> Self {
        let w = World::new(stakes);
        let n = stakes.len();
        let mut nodes = Vec::new();
        for i in 0..n {
            let mut cfg = NodeCfg::consensus_only(i);
            cfg.timeout_delay = timeout_delay;
            cfg.sync_retry_delay = sync_retry_delay;
            cfg.with_mempool = full;
            cfg.store = StoreKind::Mem;
            cfg.mempool_params = mempool_params.as_ref().map(|p| mempool::Parameters {
                gc_depth: p.gc_depth,
                sync_retry_delay: p.sync_retry_delay,
                sync_retry_nodes: p.sync_retry_nodes,
                batch_size: p.batch_size,
                max_batch_delay: p.max_batch_delay,
            });
            nodes.push(Some(Node::boot(&w, cfg)));
        }
        Self {
            w,
            nodes,
            now: 1,
            links: Vec::new(),
            queue: BinaryHeap::new(),
            seq: 0,
            delta,
            commits: vec![Vec::new(); n],
            cut: BTreeSet::new(),
            crashed: BTreeSet::new(),
            full,
            panics: Vec::new(),
            frames_seen: 0,
            trace: Vec::new(),
            keep_trace: false,
            client_eps: HashMap::new(),
            byz: None,
            byz_inbox: Vec::new(),
            inject_eps: HashMap::new(),
            injections: Vec::new(),
        }
    }

    pub fn n(&self) -> usize {
        self.nodes.len()
    }

    fn addrs_of(&self, i: usize) -> Vec<std::net::SocketAddr> {
        vec![crate::world::consensus_addr(i), crate::world::mempool_addr(i), crate::world::tx_addr(i)]
    }

    fn refuse(&self, src: usize, dst: usize, on: bool) {
        if let Some(node) = &self.nodes[src] {
            simnet::enter(node.rt.ns);
            for a in self.addrs_of(dst) {
                simnet::set_refuse(a, on);
            }
        }
    }

    /// Crash node i now: its runtime is dropped, connections to it break, connects are refused.
    pub fn crash(&mut self, i: usize) {
        if self.crashed.insert(i) {
            self.nodes[i] = None;
            for l in self.links.iter_mut() {
                if l.dst == i && !l.dead {
                    l.dead = true;
                    l.src_ep.close();
                }
                if l.src == i && !l.dead {
                    l.src_gone = true;
                }
            }
            for s in 0..self.n() {
                if s != i {
                    self.refuse(s, i, true);
                }
            }
        }
    }

    /// Member `z` is played by the harness from now on: its real node is dropped, frames sent to
    /// it are captured in `byz_inbox` (proposals are acknowledged), nothing is refused.
    pub fn set_byzantine(&mut self, z: usize) {
        self.nodes[z] = None;
        self.byz = Some(z);
        self.crashed.insert(z);
    }

    /// Harness-originated frame to `dst`'s port, arriving after `delay` ms.
    pub fn inject(&mut self, dst: usize, port: u16, bytes: Vec<u8>, delay: u64) {
        self.injections.push((self.now + delay, dst, port, bytes));
    }

    /// Sever (or heal) the link between a and b in both directions.
    pub fn set_cut(&mut self, a: usize, b: usize, on: bool) {
        for (x, y) in [(a, b), (b, a)] {
            if on {
                self.cut.insert((x, y));
            } else {
                self.cut.remove(&(x, y));
            }
            if !self.crashed.contains(&y) {
                self.refuse(x, y, on);
            }
        }
        if on {
            for l in self.links.iter_mut() {
                if ((l.src == a && l.dst == b) || (l.src == b && l.dst == a)) && !l.dead {
                    l.dead = true;
                    l.src_ep.close();
                    if let Some(e) = &l.dst_ep {
                        e.close();
                    }
                }
            }
        }
    }

    /// Submit a client transaction to node i's transaction port.
    pub fn submit_tx(&mut self, i: usize, tx: &[u8]) {
        if let Some(node) = &self.nodes[i] {
            simnet::enter(node.rt.ns);
            if !self.client_eps.contains_key(&i) {
                if let Some(ep) = simnet::dial(TX_PORT0 + i as u16) {
                    self.client_eps.insert(i, ep);
                }
            }
            if let Some(ep) = self.client_eps.get(&i) {
                ep.write_frame(tx);
            }
        }
    }

    /// Advance every live node by `step` ms, move frames through the network under `policy`.
    pub fn tick(&mut self, step: u64, policy: &mut dyn FnMut(&FrameInfo) -> Verdict) {
        for node in self.nodes.iter().flatten() {
            node.rt.run_for(step);
        }
        self.now += step;
        // new connections
        for i in 0..self.n() {
            if let Some(node) = &self.nodes[i] {
                simnet::enter(node.rt.ns);
                for ep in simnet::take_outbound() {
                    let port = ep.addr.port();
                    let (_, dst) = classify(port);
                    self.links.push(Link { src: i, dst, port, src_ep: ep, dst_ep: None, dead: false, src_gone: false });
                }
                for p in node.rt.panics() {
                    self.panics.push((i, p));
                }
            }
        }
        // frames leaving nodes
        for li in 0..self.links.len() {
            if self.links[li].dead || self.links[li].src_gone {
                continue;
            }
            let (src, dst, port) = (self.links[li].src, self.links[li].dst, self.links[li].port);
            let (kind, _) = classify(port);
            let fwd = self.links[li].src_ep.read_frames();
            for bytes in fwd {
                self.frames_seen += 1;
                if self.keep_trace {
                    self.trace.push((self.now, src, dst, kind, bytes.clone()));
                }
                if Some(dst) == self.byz {
                    if kind == Kind::Consensus {
                        if let Some(ConsensusMessage::Propose(_)) = decode_consensus(&bytes) {
                            self.links[li].src_ep.write_frame(b"Ack");
                        }
                    }
                    self.byz_inbox.push((self.now, src, kind, bytes));
                    continue;
                }
                if self.cut.contains(&(src, dst)) || self.crashed.contains(&dst) || dst >= self.n() {
                    continue;
                }
                let v = policy(&FrameInfo { src, dst, kind, bytes: &bytes, now: self.now });
                if let Verdict::Deliver(d) = v {
                    self.seq += 1;
                    self.queue.push(Reverse(Event { at: self.now + d, seq: self.seq, link: li, back: false, bytes }));
                }
            }
            let back: Vec<Vec<u8>> = self.links[li].dst_ep.as_ref().map(|e| e.read_frames()).unwrap_or_default();
            for bytes in back {
                if self.cut.contains(&(dst, src)) {
                    continue;
                }
                self.seq += 1;
                self.queue.push(Reverse(Event { at: self.now + self.delta, seq: self.seq, link: li, back: true, bytes }));
            }
            if self.links[li].src_ep.closed_by_node() {
                self.links[li].dead = true;
                if let Some(e) = &self.links[li].dst_ep {
                    e.close();
                }
            }
        }
        // deliveries that are due
        while let Some(Reverse(ev)) = self.queue.peek() {
            if ev.at > self.now {
                break;
            }
            let Reverse(ev) = self.queue.pop().unwrap();
            let l = &mut self.links[ev.link];
            if l.dead {
                continue;
            }
            if ev.back {
                if !l.src_gone {
                    l.src_ep.write_frame(&ev.bytes);
                }
            } else {
                if self.crashed.contains(&l.dst) || self.cut.contains(&(l.src, l.dst)) {
                    continue;
                }
                if l.dst_ep.is_none() {
                    if let Some(node) = &self.nodes[l.dst] {
                        simnet::enter(node.rt.ns);
                        l.dst_ep = simnet::dial(l.port);
                    }
                }
                if let Some(e) = &l.dst_ep {
                    e.write_frame(&ev.bytes);
                }
            }
        }
        // harness-originated frames
        let due: Vec<(u64, usize, u16, Vec<u8>)> = self.injections.iter().filter(|x| x.0 <= self.now).cloned().collect();
        let now = self.now;
        self.injections.retain(|x| x.0 > now);
        for (_, dst, port, bytes) in due {
            if let Some(node) = &self.nodes[dst] {
                simnet::enter(node.rt.ns);
                let need = self.inject_eps.get(&(dst, port)).map_or(true, |e| e.closed_by_node());
                if need {
                    if let Some(ep) = simnet::dial(port) {
                        self.inject_eps.insert((dst, port), ep);
                    }
                }
                if let Some(ep) = self.inject_eps.get(&(dst, port)) {
                    ep.write_frame(&bytes);
                }
            }
        }
        // commits
        for i in 0..self.n() {
            if let Some(node) = self.nodes[i].as_mut() {
                for b in node.commits() {
                    self.commits[i].push((self.now, b));
                }
            }
        }
    }

    /// Re-schedule every frame that is being held (due far in the future) to arrive after `delay`.
    pub fn release_held(&mut self, delay: u64) {
        let evs: Vec<Event> = std::mem::take(&mut self.queue).into_iter().map(|Reverse(e)| e).collect();
        let mut sorted = evs;
        sorted.sort();
        for mut e in sorted {
            if e.at > self.now + 100_000_000 {
                e.at = self.now + delay;
            }
            self.queue.push(Reverse(e));
        }
    }

    pub fn in_flight(&self) -> bool {
        !self.queue.is_empty()
    }

    pub fn next_due(&self) -> Option<u64> {
        let a = self.queue.peek().map(|Reverse(e)| e.at);
        let b = self.injections.iter().map(|x| x.0).min();
        match (a, b) {
            (Some(x), Some(y)) => Some(x.min(y)),
            (x, None) => x,
            (None, y) => y,
        }
    }

    /// Run until `until` (virtual ms) with steps of at most `g` ms.
    pub fn run_until(&mut self, until: u64, g: u64, policy: &mut dyn FnMut(&FrameInfo) -> Verdict) {
        while self.now < until {
            let mut step = g.min(until - self.now);
            if let Some(d) = self.next_due() {
                if d > self.now {
                    step = step.min(d - self.now);
                } else {
                    step = 1;
                }
            }
            self.tick(step.max(1), policy);
        }
    }

    pub fn committed_round(&self, i: usize) -> u64 {
        self.commits[i].last().map(|(_, b)| b.round).unwrap_or(0)
    }

    /// C02 monitor on a node's delivered sequence; returns a description of the first violation.
    pub fn check_chain(&self, i: usize) -> Option<String> {
        let mut prev: Option<Digest> = None;
        for (k, (_, b)) in self.commits[i].iter().enumerate() {
            let ok = match &prev {
                None => crate::world::is_genesis_qc(&b.qc),
                Some(p) => !crate::world::is_genesis_qc(&b.qc) && b.qc.hash == *p,
            };
            if !ok || b.digest() == Block::genesis().digest() {
                return Some(format!("node n{} delivered block #{} (round {}) whose parent is not the block delivered before it", i, k, b.round));
            }
            prev = Some(b.digest());
        }
        None
    }

    /// C01 monitor: all delivered sequences are prefixes of one another.
    pub fn check_agreement(&self) -> Option<String> {
        for a in 0..self.n() {
            for b in (a + 1)..self.n() {
                let m = self.commits[a].len().min(self.commits[b].len());
                for k in 0..m {
                    if self.commits[a][k].1.digest() != self.commits[b][k].1.digest() {
                        return Some(format!("nodes n{} and n{} delivered different blocks at position {}", a, b, k));
                    }
                }
            }
        }
        None
    }
}

pub fn decode_consensus(bytes: &[u8]) -> Option<ConsensusMessage> {
    bincode::deserialize(bytes).ok()
}
