// Per-property entry points built on the `proto`, `solo` and `chain` engines.
use crate::proto::solo::{self, SoloCfg};
use crate::proto::{self, cfg_b4, cfg_h3c, cfg_h4, chain, Cfg};
use crate::util::{Report, Tier};
use serde_json::json;

fn common(rep: &mut Report) {
    rep.assume("committee of 4 equal-stake authorities (f=1); bounded rounds / timer expiries / Byzantine creations / sequence depth as listed per configuration");
    rep.assume("local transitions are executions of the real Consensus::spawn stack on a paused current-thread tokio runtime over the in-memory transport; intra-node task hand-offs run in tokio's deterministic order");
    rep.assume("in-memory store actor with the reference semantics that check C16 establishes for the real store");
    rep.assume("certificate vote lists are treated as sets when messages and local states are identified (canon_certs)");
    rep.set("explanation", json!("proto: explicit-state BFS over global states (local state of every honest node + set of messages ever sent + budgets); every enabled delivery (incl. duplicates, reordering, arbitrary delay; loss = never delivered), timer expiry and Byzantine creation is taken from every state; each local transition is the real node's quiescent reaction, memoised, and every rebuild of a node re-validates its whole input history. solo: BFS to a depth bound over the local states of one real node against an adversarial environment holding the other three keys (any block tree up to round R incl. unsafe TC-justified variants, certificates, optionally individual votes/timeouts, the node's own timer). chain: every chain shape x learning order delivered to one real node. Monitors run on every local transition and on every global state."));
}

fn h3c_all(r: u64, t: u8, tier: Tier) -> Vec<Cfg> {
    (0..4).map(|c| cfg_h3c(c, r, t, tier)).collect()
}

fn b4_all(r: u64, t: u8, k: u8, tier: Tier) -> Vec<Cfg> {
    (0..4).map(|c| cfg_b4(c, r, t, k, tier)).collect()
}

/// solo configurations shared by the single-node properties
fn solo_std(rep: &mut Report, property: &str, tier: Tier, with_aggregation: bool) {
    let nodes: Vec<usize> = tier.pick(vec![0, 2], vec![0, 1, 2, 3]);
    for &n in &nodes {
        // blocks (incl. unsafe variants) + TC messages + timer
        let mut sc: SoloCfg = solo::default_cfg(n, tier.pick(3, 4), tier);
        sc.with_votes = false;
        sc.with_timeouts = false;
        sc.max_depth = tier.pick(4, 5);
        solo::run(rep, property, "blocks+tcs", sc);
    }
    // correctly signed but unjustified blocks (rounds skipped without a TC, QC round >= block round)
    for &n in tier.pick(vec![0usize], vec![0usize, 1, 2, 3]).iter() {
        let mut sc: SoloCfg = solo::default_cfg(n, 2, tier);
        sc.with_votes = false;
        sc.with_timeouts = false;
        sc.stale_variants = false;
        sc.with_unjustified = true;
        sc.max_depth = tier.pick(4, 5);
        solo::run(rep, property, "blocks+unjustified", sc);
    }
    for &n in tier.pick(vec![0usize], vec![0usize, 3]).iter() {
        let mut sc: SoloCfg = solo::default_cfg(n, tier.pick(2, 3), tier);
        sc.with_votes = false;
        sc.with_timeouts = false;
        sc.stale_variants = false;
        sc.with_payload = true;
        sc.max_depth = tier.pick(5, 4);
        solo::run(rep, property, "blocks+payload", sc);
    }
    if with_aggregation {
        // a committee with a listed member that has no voting rights (stake 0)
        {
            let mut sc: SoloCfg = solo::default_cfg(2, 2, tier);
            sc.stakes = vec![1, 1, 1, 1, 0];
            sc.with_votes = true;
            sc.with_timeouts = true;
            sc.max_depth = tier.pick(4, 5);
            solo::run(rep, property, "zero-stake-member", sc);
        }
        for &n in &nodes {
            // individual votes and timeouts of the others as well (smaller round bound)
            let mut sc: SoloCfg = solo::default_cfg(n, 2, tier);
            sc.with_votes = true;
            sc.with_timeouts = true;
            sc.max_depth = tier.pick(4, 5);
            solo::run(rep, property, "blocks+votes+timeouts", sc);
        }
    }
}

pub fn c01(tier: Tier) -> i32 {
    let mut rep = Report::new("C01", tier, "model_checking");
    common(&mut rep);
    let mut cfgs = match tier {
        Tier::Quick => b4_all(3, 0, 1, tier),
        Tier::Thorough => {
            let mut v = b4_all(4, 0, 1, tier);
            v.extend(b4_all(3, 1, 1, tier));
            v.extend(b4_all(3, 0, 2, tier));
            v
        }
    };
    cfgs.push(cfg_h4(3, tier.pick(1, 2), tier));
    if tier == Tier::Thorough {
        cfgs.push(cfg_h4(4, 1, tier));
        cfgs.extend(h3c_all(6, 6, tier));
    } else {
        cfgs.extend(h3c_all(5, 3, tier));
    }
    proto::run_configs(&mut rep, "C01", cfgs, 3);
    crate::sim_checks::c01_strategies(&mut rep, tier);
    proto::rounds::run_c01(&mut rep, tier);
    rep.assume("the Byzantine member's behaviour is a menu (equivocating / stale / non-leader proposals on every certificate present on or formable from the wire, double votes, timeouts with the lowest and highest known QC, formable TCs), not arbitrary bytes; arbitrary bytes are C15's and C04's subject");
    rep.finish()
}

pub fn c02(tier: Tier) -> i32 {
    let mut rep = Report::new("C02", tier, "model_checking");
    common(&mut rep);
    chain::run(&mut rep, "C02", tier);
    solo_std(&mut rep, "C02", tier, false);
    let mut cfgs = match tier {
        Tier::Quick => h3c_all(5, 3, tier),
        Tier::Thorough => h3c_all(7, 6, tier),
    };
    cfgs.push(cfg_h4(3, tier.pick(1, 2), tier));
    proto::run_configs(&mut rep, "C02", cfgs, 3);
    rep.finish()
}

pub fn c03(tier: Tier) -> i32 {
    let mut rep = Report::new("C03", tier, "model_checking");
    common(&mut rep);
    solo_std(&mut rep, "C03", tier, true);
    let mut cfgs = match tier {
        Tier::Quick => vec![cfg_b4(3, 3, 0, 1, tier), cfg_b4(1, 3, 0, 1, tier)],
        Tier::Thorough => {
            let mut v = b4_all(4, 0, 1, tier);
            v.extend(b4_all(3, 1, 1, tier));
            v
        }
    };
    cfgs.push(cfg_h4(3, tier.pick(1, 2), tier));
    proto::run_configs(&mut rep, "C03", cfgs, 3);
    rep.finish()
}

pub fn c05(tier: Tier) -> i32 {
    let mut rep = Report::new("C05", tier, "model_checking");
    common(&mut rep);
    chain::run(&mut rep, "C05", tier);
    solo_std(&mut rep, "C05", tier, false);
    let mut cfgs = match tier {
        Tier::Quick => h3c_all(5, 3, tier),
        Tier::Thorough => h3c_all(7, 6, tier),
    };
    cfgs.push(cfg_h4(3, tier.pick(1, 2), tier));
    proto::run_configs(&mut rep, "C05", cfgs, 3);
    rep.finish()
}

pub fn c09(tier: Tier) -> i32 {
    let mut rep = Report::new("C09", tier, "model_checking");
    common(&mut rep);
    crate::enumchecks::c09_leader(&mut rep, tier);
    solo_std(&mut rep, "C09", tier, true);
    // the leader of round R+1 with a payload source: every order (depth 7 -> 8) of the round-<=R
    // blocks, the others' votes, timeouts and TCs, its own mempool handing it a digest, and its timer;
    // between two requests to its proposer the payload buffer may have changed, so a second
    // proposal for a round is a *different* signed block
    for (n, r, depth) in tier.pick(vec![(2usize, 1u64, 7usize)], vec![(2usize, 1u64, 8usize), (3, 2, 6)]) {
        let mut sc: SoloCfg = solo::default_cfg(n, r, tier);
        sc.with_votes = true;
        sc.with_timeouts = true;
        sc.stale_variants = false;
        sc.with_invalid = false;
        sc.with_digest = true;
        sc.max_depth = depth;
        sc.max_states = tier.pick(150_000, 3_000_000);
        sc.wall_cap_s = tier.pick(25.0, 300.0);
        solo::run(&mut rep, "C09", "leader+payload-source", sc);
    }
    let mut cfgs = match tier {
        Tier::Quick => vec![cfg_b4(3, 3, 0, 1, tier), cfg_b4(0, 3, 0, 1, tier)],
        Tier::Thorough => {
            let mut v = b4_all(4, 0, 1, tier);
            v.extend(b4_all(3, 1, 1, tier));
            v
        }
    };
    cfgs.push(cfg_h4(3, tier.pick(1, 2), tier));
    if tier == Tier::Thorough {
        cfgs.push(cfg_h4(2, 3, tier));
    }
    proto::run_configs(&mut rep, "C09", cfgs, 3);
    rep.finish()
}

pub fn c10(tier: Tier) -> i32 {
    let mut rep = Report::new("C10", tier, "model_checking");
    common(&mut rep);
    solo_std(&mut rep, "C10", tier, true);
    crate::seq_full::c10_payload_paths(&mut rep, tier);
    let mut cfgs = vec![cfg_h4(3, tier.pick(1, 2), tier)];
    cfgs.extend(match tier {
        Tier::Quick => h3c_all(5, 3, tier),
        Tier::Thorough => {
            let mut v = h3c_all(6, 6, tier);
            v.extend(b4_all(3, 1, 1, tier));
            v
        }
    });
    proto::run_configs(&mut rep, "C10", cfgs, 3);
    rep.finish()
}

pub fn c19(tier: Tier) -> i32 {
    let mut rep = Report::new("C19", tier, "model_checking");
    common(&mut rep);
    crate::seq_aggregator::run(&mut rep, tier);
    solo_std(&mut rep, "C19", tier, true);
    let mut cfgs = vec![cfg_h4(3, tier.pick(1, 2), tier)];
    if tier == Tier::Thorough {
        cfgs.push(cfg_h4(2, 3, tier));
        cfgs.extend(b4_all(3, 1, 1, tier));
    } else {
        cfgs.push(cfg_b4(2, 3, 0, 1, tier));
    }
    proto::run_configs(&mut rep, "C19", cfgs, 3);
    rep.finish()
}

fn unhex(s: &str) -> Vec<u8> {
    (0..s.len() / 2).map(|i| u8::from_str_radix(&s[2 * i..2 * i + 2], 16).unwrap_or(0)).collect()
}

/// Re-execute a recorded counterexample on live real nodes, without any explorer, and re-evaluate
/// the monitors. Exit 1 if the recorded property is violated again.
pub fn replay(property: &str, path: &str) -> i32 {
    use crate::proto::node::LiveNode;
    use crate::proto::universe::{Ev, Universe};
    use std::collections::BTreeMap;
    use std::sync::Arc;
    let v: serde_json::Value = match std::fs::read(path).ok().and_then(|d| serde_json::from_slice(&d).ok()) {
        Some(v) => v,
        None => {
            eprintln!("cannot read replay file {}", path);
            return 2;
        }
    };
    let r = &v["replay"];
    let w = Arc::new(crate::world::World::new(&[1, 1, 1, 1]));
    let uni = Universe::new(w.clone(), true);
    let mut hit = false;
    let mut report = |node: usize, step: usize, desc: String, res: &crate::proto::node::StepResult| {
        println!("step {:>2} n{}: {}", step, node, desc);
        for f in &res.findings {
            println!("         -> [{}:{}] {}", f.property, f.signature, f.what);
        }
    };
    if r["kind"] == "global" {
        let mut live: BTreeMap<usize, LiveNode> = BTreeMap::new();
        for i in r["honest"].as_array().cloned().unwrap_or_default() {
            let i = i.as_u64().unwrap() as usize;
            live.insert(i, LiveNode::boot(&w, &uni, i).0);
        }
        for (k, e) in r["events_raw"].as_array().cloned().unwrap_or_default().iter().enumerate() {
            let node = match e["node"].as_u64() {
                Some(n) => n as usize,
                None => continue,
            };
            let ev = if e["timer"] == true {
                Ev::Timer
            } else {
                let m: consensus::verif::ConsensusMessage = bincode::deserialize(&unhex(e["deliver"].as_str().unwrap())).unwrap();
                Ev::Deliver(uni.intern(m))
            };
            let ln = live.get_mut(&node).unwrap();
            let res = ln.apply(&uni, ev);
            let desc = match ev { Ev::Timer => "timer expires".to_string(), Ev::Batch(k) => format!("batch {} arrives in the store", k), Ev::Digest(k) => format!("own mempool hands digest {} to the proposer", k), Ev::Deliver(m) => format!("deliver {}", uni.msg(m).desc) };
            report(node, k, desc, &res);
            hit |= res.findings.iter().any(|f| f.property == property);
        }
        // agreement across the live nodes
        let nodes: Vec<usize> = live.keys().cloned().collect();
        for a in &nodes {
            for b in &nodes {
                if a < b {
                    for x in &live[a].hist.commits {
                        for y in &live[b].hist.commits {
                            if !(uni.is_ancestor(x, y) || uni.is_ancestor(y, x)) {
                                println!("         -> [C01] n{} and n{} committed conflicting blocks", a, b);
                                hit |= property == "C01";
                            }
                        }
                    }
                }
            }
        }
    } else {
        let node = r["node"].as_u64().unwrap_or(0) as usize;
        let (mut ln, _) = LiveNode::boot(&w, &uni, node);
        for (k, e) in r["events_raw"].as_array().cloned().unwrap_or_default().iter().enumerate() {
            let e = e.as_str().unwrap_or("");
            let ev = if e == "timer" {
                Ev::Timer
            } else if let Some(k) = e.strip_prefix("batch:") {
                Ev::Batch(k.parse().unwrap_or(0))
            } else if let Some(k) = e.strip_prefix("digest:") {
                Ev::Digest(k.parse().unwrap_or(0))
            } else {
                let m: consensus::verif::ConsensusMessage = bincode::deserialize(&unhex(e)).unwrap();
                Ev::Deliver(uni.intern(m))
            };
            let res = ln.apply(&uni, ev);
            let desc = match ev { Ev::Timer => "timer expires".to_string(), Ev::Batch(k) => format!("batch {} arrives in the store", k), Ev::Digest(k) => format!("own mempool hands digest {} to the proposer", k), Ev::Deliver(m) => format!("deliver {}", uni.msg(m).desc) };
            report(node, k, desc, &res);
            hit |= res.findings.iter().any(|f| f.property == property);
        }
        println!("delivered to the application: {} blocks", ln.hist.commits.len());
    }
    if hit {
        println!("VIOLATION property={} replay={}", property, path);
        1
    } else {
        println!("replay did not reproduce a violation of {}", property);
        0
    }
}
