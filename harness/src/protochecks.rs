// Per-property entry points built on the `proto` and `chain` engines.
use crate::proto::{self, cfg_b4, cfg_h3c, cfg_h4, chain, Cfg};
use crate::util::{Report, Tier};
use serde_json::json;

fn common(rep: &mut Report) {
    rep.assume("committee of 4 equal-stake authorities (f=1); bounded rounds / timer expiries / Byzantine creations as listed per configuration");
    rep.assume("local transitions are executions of the real Consensus::spawn stack on a paused current-thread tokio runtime over the in-memory transport; intra-node task hand-offs run in tokio's deterministic order");
    rep.assume("in-memory store actor with the reference semantics that check C16 establishes for the real store");
    rep.assume("certificate vote lists are treated as sets when messages and local states are identified (canon_certs)");
    rep.set("explanation", json!("explicit-state BFS over global states (local state of every honest node + set of messages ever sent + budgets); every enabled delivery (incl. duplicates, reordering, arbitrary delay; loss = never delivered) and timer expiry is taken from every state; each local transition is the real node's quiescent reaction, memoised; monitors run on every local transition and on every global state"));
}

fn h3c_all(r: u64, t: u8, tier: Tier) -> Vec<Cfg> {
    (0..4).map(|c| cfg_h3c(c, r, t, tier)).collect()
}

pub fn c02(tier: Tier) -> i32 {
    let mut rep = Report::new("C02", tier, "model_checking");
    common(&mut rep);
    chain::run(&mut rep, "C02", tier);
    let mut cfgs = match tier {
        Tier::Quick => h3c_all(5, 4, tier),
        Tier::Thorough => h3c_all(7, 6, tier),
    };
    cfgs.push(cfg_h4(3, tier.pick(1, 2), tier));
    proto::run_configs(&mut rep, "C02", cfgs, 3);
    rep.finish()
}

pub fn c05(tier: Tier) -> i32 {
    let mut rep = Report::new("C05", tier, "model_checking");
    common(&mut rep);
    chain::run(&mut rep, "C05", tier);
    let mut cfgs = match tier {
        Tier::Quick => h3c_all(5, 4, tier),
        Tier::Thorough => h3c_all(7, 6, tier),
    };
    cfgs.push(cfg_h4(3, tier.pick(1, 2), tier));
    proto::run_configs(&mut rep, "C05", cfgs, 3);
    rep.finish()
}
