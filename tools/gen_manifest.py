#!/usr/bin/env python3
# Generates /verif/MANIFEST.json from the table below (keeps not_applicable in sync with properties.jsonl).
import json, subprocess
props=[json.loads(l) for l in open('/verif/properties.jsonl')]
hooks=subprocess.run(['git','-C','/repo','log','--format=%h %s','--grep=^verif hook'],capture_output=True,text=True).stdout.strip().split('\n')
MC="model_checking"; EX="exploration"; FE="fault_enumeration"
PROTO_NOTE="Trusted base: the harness (driver, in-memory transport, reference oracles written independently of the code under test), tokio's paused-clock current-thread runtime, ed25519-dalek. Bounds (committee of 4, rounds, timer expiries, Byzantine creations, sequence depth) are reported per configuration in the evidence file; a capped configuration is reported as such and never called exhaustive."
C={
 "C01":(MC,"proto","explicit-state BFS over real consensus nodes (stateless replay + memoised local transitions), Byzantine menu","Agreement monitor on every reachable global state of 3 real honest nodes + 1 Byzantine member (all 4 placements), and of 4 / 3+crashed honest nodes: all delivery orders incl. duplication, reordering, arbitrary delay and loss; all timer interleavings within T; all Byzantine creations from the menu within K; up to round R.","5.1, 6 (C01)"),
 "C02":(MC,"proto+solo+chain","explicit-state search on the real node: every chain shape x learning order (chain), adversarial single-node BFS to a depth bound (solo), global BFS with crashed leaders (proto)","The delivered sequence of every node is checked to be a prefix-closed parent walk from genesis on every local transition explored.","5.1, 6 (C02)"),
 "C03":(MC,"proto+solo","explicit-state search on the real node: adversarial single-node BFS incl. unsafe TC-justified proposals (solo), global BFS with a Byzantine member (proto)","Every vote the node signs (on the wire or counted by itself as next leader) is checked against the four clauses of the property on every local transition explored.","5.1, 6 (C03)"),
 "C04":(MC,"c04 (mutants on solo states)","exhaustive mutant delivery over explicit-state-explored local states of the real node: every invalid mutant of every valid message x every reached state, with behavioural non-interference follow-ups; verify() functions checked against an independent reference","For every state reached by a depth-2/3 adversarial BFS on one real node (equal and unequal stakes) and every invalid mutant (field / signature transplant / bit flip / certificate signer defects / spliced certificates): rejected by verify(), state and outputs unchanged, next reactions identical.","5.2, 6 (C04)"),
 "C05":(MC,"proto+solo+chain","explicit-state search on the real node (chain shapes incl. gaps at either position, solo, proto)","Every commit burst must be justified by a valid QC for a consecutive-round child of its head carried by a block processed in that very step.","5.1, 6 (C05)"),
 "C09":(MC,"enum+proto+solo","exhaustive enumeration of the leader function over committees x insertion orders x rounds; explicit-state search for votes/equivocation","Leader: every committee of size <=5/6 drawn from 7 keys, every insertion order, boundary rounds. Votes only for the round leader's correctly signed block and no two own proposals per round: monitors on every local transition explored by proto/solo.","5.4, 6 (C09)"),
 "C10":(MC,"proto+solo","explicit-state search on the real node (solo adversarial BFS, proto global BFS)","Round monotone, advanced only with a valid QC/TC of the previous round in hand, timeouts carry a QC at least as high as any voted/sent: monitors on every local transition explored.","5.1, 6 (C10)"),
 "C19":(MC,"seq-aggregator+proto+solo","explicit-state search to a fixpoint on the real Aggregator against a reference model; reference aggregator monitors inside proto/solo","Aggregator: all operation sequences over votes/timeouts/cleanup on equal and unequal stake committees (closed state space). Node level: certificates sent are valid; certificates assembled exactly when the reference aggregator crosses the quorum, with exactly the contributing signers, once.","5.2, 6 (C19)"),
 "C08":(MC,"seq-full","bounded exhaustive event sequences (proposals with payloads in any order, batch deliveries, timer) on one real full node (mempool + consensus + shared store) with the store inspected at every vote/commit","Every sequence of 5/6 events over 4 proposals (r1..r3, r5), 2 batches and one timer expiry, for 5/31 payload assignments: direct, sync-resumed and payload-resumed processing paths.","5.2, 6 (C08)"),
 "C11":(MC,"seq-mempool","bounded exhaustive transaction sequences (sizes x arrival gaps) on the real mempool stack in virtual time, both builds (default and benchmark feature), against a reference batcher","Every sequence of up to 3/4 transactions over sizes {0,1,b-1,b,b+1,2b} and waits {0,d-1,d,d+1} ms for 1/3 (batch_size, max_batch_delay) configurations, in the default and the benchmark-feature build.","5.2, 6 (C11)"),
 "C12":(MC,"seq-mempool","exhaustive acknowledgement orders on the real QuorumWaiter and exhaustive Ack/Cut event sequences on the real mempool stack with the harness as the peers","QuorumWaiter: every acknowledgement order x every set of never-answering peers x equal/unequal stakes x each own node x 1-2 batches. Stack: every sequence of 5/6 Ack/Cut peer events; digest handed to consensus / batch stored only when really-acknowledging peers hold a quorum with the node.","5.2, 6 (C12)"),
 "C14":(MC,"seq-sender","bounded exhaustive (stateless, deviation-bounded) exploration of the real ReliableSender/Connection over the in-memory transport with the harness as peer","Every interleaving of hand-overs (3 messages), peer reads, peer answers, handle drops, connection cuts, refused connects and back-off expiries up to depth 10/13 with at most 2/3 faults, each followed by stabilisation; oracle = reference reliable channel (delivery, first-delivery order, ACK pairing, no retransmission after cancel).","5.2, 6 (C14)"),
 "C15":(EX,"hostile","exhaustive single-edit mutation of every valid wire/key encoding against all decoders under catch_unwind + delivery of every decodable mutant and a catalogue of absurd / cross-component messages to a live real full node with functional probes after every chunk (bisected to one message); both builds","Decoder totality within one edit (and all strings of length <= 2); node-level: no panic anywhere in the node and five services still functional after every hostile input explored.","5.5, 6 (C15)"),
 "C16":(MC,"seq-store","bounded exhaustive operation sequences on the real Store (RocksDB) against a reference store, waiters parked and cancelled at every position","Every sequence up to length 5/6 over write/read/notify_read on two keys from fresh cloned handles, cancellation of the oldest/newest pending notify_read, 1..6 waiters per key, and one reopen anywhere (length 3/4); every waiter is checked after every operation.","5.2, 6 (C16)"),
 "C17":(EX,"enum","exhaustive enumeration of total stakes through the real Committee types","Every total stake 1..2^31-1 (thorough; quick: 2^20 + windows around powers of two) in four shapes, every composition of n<=12 into <=5 parts incl. zero-stake members, both crates.","5.4, 6 (C17)"),
 "C18":(EX,"enum","exhaustive enumeration of bit flips / batch corruptions / encoder round trips on seeded keys","Every bit of signature, digest and key flipped; batches 0..4 with every position x bit and every corrupted subset vs conjunction; base64/serde/bincode/JSON-file round trips.","5.4, 6 (C18)"),
 "C20":(EX,"enum","exhaustive pairwise comparison of digests over a closed message universe + wire/store round trips","All pairs in a universe of blocks/votes/timeouts differing in one field incl. adjacent boundaries; domain separation; round trips through bincode, the real Store and the real Helper, incl. every message interned by a proto run.","5.4, 6 (C20)"),
}
checks=[]
for pid,(lvl,eng,tech,text,ref) in sorted(C.items()):
    checks.append({
     "property_id":pid,
     "quick_cmd":f"./check {pid} quick",
     "thorough_cmd":f"./check {pid} thorough",
     "evidence_file":f"/verif/evidence/{pid}.json",
     "replay_cmd_template":"./check "+pid+" --replay {path}",
     "engine":eng,
     "level_claimed":{"category":lvl,"text":text,"design_ref":"DESIGN.md section "+ref},
     "level_note":PROTO_NOTE if lvl==MC else "Trusted base: the harness enumeration code and reference oracle, ed25519-dalek for the independent signature check. The enumerated space is stated in the evidence file (rule, exhaustive flag).",
     "technique":tech,
    })
na=[{"property_id":p["id"],"reason":"check not built yet (work in progress; see DESIGN.md section 6)"} for p in props if p["id"] not in C]
m={"version":1,
 "setup_cmd":"cd /verif/harness && CARGO_NET_OFFLINE=true cargo build --release --offline --bin hsv && CARGO_NET_OFFLINE=true cargo build --release --offline --features benchmark --bin hsv-bench",
 "hooks":{"guard":"hotstuff_verif","enable":"RUSTFLAGS='--cfg hotstuff_verif --cfg tokio_unstable' (set in /verif/harness/.cargo/config.toml; own target dir /verif/harness/target)","baseline_off_cmd":"cd /repo && cargo test --workspace --no-fail-fast --offline","source_commits":hooks,"add_only":True},
 "engines":[
  {"name":"proto","path":"harness/src/proto/mod.rs","serves_properties":["C01","C02","C03","C05","C09","C10","C19"],"kind_free_text":"explicit-state BFS over global protocol states; local transitions are executions of the real consensus node"},
  {"name":"solo","path":"harness/src/proto/solo.rs","serves_properties":["C02","C03","C05","C09","C10","C19"],"kind_free_text":"depth-bounded BFS over one real node's local states against an adversarial environment"},
  {"name":"chain","path":"harness/src/proto/chain.rs","serves_properties":["C02","C05"],"kind_free_text":"all chain shapes x learning orders on one real node"},
  {"name":"seq-aggregator","path":"harness/src/seq_aggregator.rs","serves_properties":["C19"],"kind_free_text":"fixpoint search on the real Aggregator vs reference model"},
  {"name":"c04","path":"harness/src/c04.rs","serves_properties":["C04"],"kind_free_text":"mutant non-interference over explored local states of the real node"},
  {"name":"seq-full","path":"harness/src/seq_full.rs","serves_properties":["C08"],"kind_free_text":"bounded exhaustive event sequences on one real full node"},
  {"name":"seq-mempool","path":"harness/src/seq_mempool.rs","serves_properties":["C11","C12"],"kind_free_text":"bounded exhaustive event sequences on the real mempool stack vs reference batcher / quorum rule"},
  {"name":"seq-sender","path":"harness/src/seq_sender.rs","serves_properties":["C14"],"kind_free_text":"stateless bounded exploration of the real reliable sender vs reference channel"},
  {"name":"hostile","path":"harness/src/hostile.rs","serves_properties":["C15"],"kind_free_text":"exhaustive single-edit mutation sweep + node-level hostile delivery with functional probes"},
  {"name":"seq-store","path":"harness/src/seq_store.rs","serves_properties":["C16"],"kind_free_text":"bounded exhaustive operation sequences on the real store vs reference store"},
  {"name":"enum","path":"harness/src/enumchecks.rs","serves_properties":["C09","C17","C18","C20"],"kind_free_text":"exhaustive enumeration of closed value spaces"},
 ],
 "checks":checks,
 "notes":"See DESIGN.md. known_findings.json lists genuine defects (fixed / open).",
 "not_applicable":na}
json.dump(m,open('/verif/MANIFEST.json','w'),indent=1)
print(len(checks),"checks;",len(na),"not yet claimed")
