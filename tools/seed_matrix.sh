#!/bin/bash
# runs every seeded change against the check of its property (quick tier) and records the outcome in seeded/<id>/detection.json
cd /verif
for d in $(ls seeded); do
  p=${d%%-*}
  out=$(tools/seedtest.sh seeded/$d $p quick 2>&1)
  code=$(echo "$out" | grep -oE "exit=[0-9]+" | tail -1 | cut -d= -f2)
  what=$(echo "$out" | grep -E "^  what:" | head -1 | sed 's/^  what: //; s/"/\\"/g' | cut -c1-400)
  nv=$(echo "$out" | grep -c "^VIOLATION")
  echo "{\"seed\":\"$d\",\"property\":\"$p\",\"check\":\"./check $p quick\",\"exit\":$code,\"violations\":$nv,\"detected\":$([ "$code" = "1" ] && echo true || echo false),\"first_finding\":\"$what\"}" > seeded/$d/detection.json
  echo "$d -> exit=$code violations=$nv"
  if [ -f seeded/$d/also_check ]; then
    q=$(cat seeded/$d/also_check)
    out2=$(tools/seedtest.sh seeded/$d $q quick 2>&1)
    code2=$(echo "$out2" | grep -oE "exit=[0-9]+" | tail -1 | cut -d= -f2)
    what2=$(echo "$out2" | grep -E "^  what:" | head -1 | sed 's/^  what: //; s/"/\\"/g' | cut -c1-400)
    echo "{\"seed\":\"$d\",\"property\":\"$q\",\"check\":\"./check $q quick\",\"exit\":$code2,\"detected\":$([ "$code2" = "1" ] && echo true || echo false),\"first_finding\":\"$what2\"}" > seeded/$d/detection_$q.json
    echo "$d (also $q) -> exit=$code2"
  fi
done
