#!/bin/bash
# usage: tools/verify_seed.sh <seed-name> <worktree>
# Confirms in a scratch worktree: patch+demo apply on current /repo HEAD, the 41 baseline tests pass
# with the change, the demonstration fails with it and passes without it. Writes seeded/<name>/verified.json.
seed=$1; wt=$2
S=/verif/seeded/$seed
HEAD=$(git -C /repo rev-parse HEAD)
cd $wt || exit 2
git reset -q --hard; git clean -qfd -e target -e Cargo.lock; git checkout -q --detach $HEAD
[ -f Cargo.lock ] || cp /repo/Cargo.lock .
out=$S/verified.json
applies=true
git apply $S/patch.diff 2>/tmp/vs.$seed.err || applies=false
git apply $S/demo.diff 2>>/tmp/vs.$seed.err || applies=false
if [ $applies = false ]; then echo "{\"seed\":\"$seed\",\"applies\":false,\"err\":\"$(head -c 300 /tmp/vs.$seed.err | tr '\n"' '  ')\"}" > $out; cat $out; exit 1; fi
cargo test --workspace --no-fail-fast --offline > /tmp/vs.$seed.with.log 2>&1
passed_with=$(grep -E "^test .* \.\.\. ok" /tmp/vs.$seed.with.log | wc -l)
failed_with=$(grep -E "^test .* \.\.\. FAILED" /tmp/vs.$seed.with.log | sed 's/^test //; s/ \.\.\. FAILED//' | tr '\n' ',' )
nfailed_with=$(grep -E "^test .* \.\.\. FAILED" /tmp/vs.$seed.with.log | wc -l)
git apply -R $S/patch.diff
cargo test --workspace --no-fail-fast --offline > /tmp/vs.$seed.without.log 2>&1
passed_without=$(grep -E "^test .* \.\.\. ok" /tmp/vs.$seed.without.log | wc -l)
nfailed_without=$(grep -E "^test .* \.\.\. FAILED" /tmp/vs.$seed.without.log | wc -l)
cat > $out <<JSON
{"seed":"$seed","repo_head":"$HEAD","applies":true,
 "with_change":{"tests_ok":$passed_with,"tests_failed":$nfailed_with,"failed":"$failed_with"},
 "without_change":{"tests_ok":$passed_without,"tests_failed":$nfailed_without},
 "confirmed": $( [ $nfailed_with -ge 1 ] && [ $nfailed_without -eq 0 ] && [ $passed_with -ge 41 ] && echo true || echo false ),
 "ran":["git apply patch.diff demo.diff; cargo test --workspace --no-fail-fast --offline","git apply -R patch.diff; cargo test --workspace --no-fail-fast --offline"]}
JSON
cat $out
git reset -q --hard; git clean -qfd -e target -e Cargo.lock
