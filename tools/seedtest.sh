#!/bin/bash
# usage: tools/seedtest.sh <seeded/dir> <PROPERTY> [tier]  -- apply a seeded change to /repo, run the check, undo.
set -u
d=$1; p=$2; t=${3:-quick}
cd /repo || exit 2
if [ -n "$(git status --porcelain --untracked-files=no)" ]; then echo "repo dirty"; exit 2; fi
git apply "/verif/$d/patch.diff" || { echo "patch does not apply"; exit 2; }
cd /verif
./check "$p" "$t" > /tmp/seedtest.$$.log 2>&1
code=$?
grep -E "VIOLATION|KNOWN-FINDING|MACHINERY|^\[" /tmp/seedtest.$$.log | cut -c1-300
grep -E "^  what:" /tmp/seedtest.$$.log | head -3 | cut -c1-400
echo "seed=$d property=$p tier=$t exit=$code"
rm -f /tmp/seedtest.$$.log
cd /repo && git checkout -- . && git status --porcelain --untracked-files=no
