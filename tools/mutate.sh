#!/bin/bash
# usage: tools/mutate.sh <file-in-repo> <python-regex-old> <new> <PROP> [tier]  -- apply an in-place textual mutation to /repo, run the check, revert
f=$1; old=$2; new=$3; p=$4; t=${5:-quick}
cd /repo || exit 2
if [ -n "$(git status --porcelain --untracked-files=no)" ]; then echo "repo dirty"; exit 2; fi
python3 - "$f" "$old" "$new" <<'PY'
import sys,re
f,old,new=sys.argv[1:4]
s=open(f).read()
n=len(re.findall(old,s))
if n!=1:
    print("pattern matches",n,"times"); sys.exit(3)
open(f,'w').write(re.sub(old,new,s))
PY
[ $? -eq 0 ] || { git checkout -- .; exit 2; }
cd /verif && ./check $p $t > /tmp/mut.$$.log 2>&1; code=$?
echo "MUTATION $f: /$old/ -> /$new/  property=$p exit=$code"
grep -E "^  what:|MACHINERY" /tmp/mut.$$.log | head -2 | cut -c1-260
rm -f /tmp/mut.$$.log
cd /repo && git checkout -- .
