#!/bin/bash
# run every registered quick (or thorough) check; print one line per check
tier=${1:-quick}
cd /verif
for p in $(python3 -c "import json;print(' '.join(c['property_id'] for c in json.load(open('MANIFEST.json'))['checks']))"); do
  s=$(date +%s)
  ./check $p $tier > /tmp/runall.$p.log 2>&1; code=$?
  e=$(date +%s)
  echo "$p exit=$code $((e-s))s $(grep -cE '^VIOLATION' /tmp/runall.$p.log) violations $(grep -cE '^KNOWN-FINDING' /tmp/runall.$p.log) known"
done
